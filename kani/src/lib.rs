//! Engine A: Kani proof harnesses over the compiled lber/ldap3 crates (path deps on /repo).
//! Every harness states its bound in the unwind attribute; oracles are written here, never by
//! calling the code under test.
#![allow(dead_code)]

#[cfg(kani)]
mod k {
    use lber::common::{TagClass, TagStructure};
    use lber::structure::PL;
    use lber::structures::{ASNTag, Boolean, Enumerated, Integer};

    /// Reference: minimal two's-complement big-endian octet count of v (X.690 8.3.2).
    fn ref_int_len(v: i64) -> usize {
        let mut n = 8usize;
        // drop leading octets while the top 9 bits are all equal
        while n > 1 {
            let top9 = (v >> (8 * (n - 1) - 1)) & 0x1ff;
            if top9 == 0 || top9 == 0x1ff {
                n -= 1;
            } else {
                break;
            }
        }
        n
    }

    /// Reference decoder of INTEGER content octets.
    fn ref_int_decode(b: &[u8]) -> i64 {
        let mut acc: i64 = if b[0] & 0x80 != 0 { -1 } else { 0 };
        let mut i = 0;
        while i < b.len() {
            acc = (acc << 8) | (b[i] as i64);
            i += 1;
        }
        acc
    }

    fn check_int_payload(v: i64, pl: PL) {
        let out = match pl {
            PL::P(o) => o,
            PL::C(_) => {
                assert!(false, "INTEGER must be primitive");
                return;
            }
        };
        let n = out.len();
        assert!(n >= 1 && n <= 8, "1..8 content octets");
        assert!(n == ref_int_len(v), "shortest two's-complement form");
        assert!(ref_int_decode(&out[..]) == v, "decodes back to the value");
        kani::cover!(n == 8, "eight octets reachable");
        kani::cover!(n == 1 && v < 0, "one-octet negative reachable");
        kani::cover!(n == 2 && out[0] == 0, "leading zero octet reachable");
        std::mem::forget(out);
    }

    #[kani::proof]
    #[kani::unwind(10)]
    fn int_all_i64() {
        let v: i64 = kani::any();
        let st = Integer { id: 2, class: TagClass::Universal, inner: v }.into_structure();
        assert!(st.id == 2 && st.class == TagClass::Universal);
        check_int_payload(v, st.payload);
    }

    #[kani::proof]
    #[kani::unwind(10)]
    fn enum_all_i64() {
        let v: i64 = kani::any();
        let st = Enumerated { id: 10, class: TagClass::Universal, inner: v }.into_structure();
        assert!(st.id == 10 && st.class == TagClass::Universal);
        check_int_payload(v, st.payload);
    }

    /// Vacuity twin: must come back FAILED.
    #[kani::proof]
    #[kani::unwind(10)]
    fn int_twin_must_fail() {
        let v: i64 = kani::any();
        let st = Integer { id: 2, class: TagClass::Universal, inner: v }.into_structure();
        match st.payload {
            PL::P(o) => {
                assert!(o.len() != 3, "twin: deliberately false");
                std::mem::forget(o);
            }
            _ => (),
        }
    }

    #[kani::proof]
    #[kani::unwind(10)]
    fn len_all_usize() {
        let l: usize = kani::any();
        let out = lber::write::verif_write_length(l);
        let n = out.len();
        assert!(n >= 1 && n <= 9);
        if l < 128 {
            assert!(n == 1 && out[0] == l as u8, "short form below 128");
        } else {
            let k = (out[0] & 0x7f) as usize;
            assert!(out[0] & 0x80 != 0 && k >= 1 && k <= 8 && n == 1 + k, "long form header");
            assert!(out[1] != 0, "minimal: no leading zero length octet");
            let mut acc: u64 = 0;
            let mut i = 1;
            while i < n {
                acc = (acc << 8) | out[i] as u64;
                i += 1;
            }
            assert!(acc == l as u64, "length octets denote the length");
        }
        // the parser reads it back and consumes exactly the header
        let mut buf = [0u8; 10];
        let mut i = 0;
        while i < n {
            buf[i] = out[i];
            i += 1;
        }
        let trailer: u8 = kani::any();
        buf[n] = trailer;
        match lber::parse::verif_parse_length(&buf[..n + 1]) {
            Ok((rest, got)) => {
                assert!(got == l, "parse_length inverts write_length");
                assert!(rest.len() == 1 && rest[0] == trailer, "trailing byte untouched");
            }
            Err(_) => assert!(false, "parse_length rejected write_length output"),
        }
        kani::cover!(n == 9, "8 length octets reachable");
        kani::cover!(l == 128, "boundary 128");
        kani::cover!(l == 65536, "boundary 65536");
        std::mem::forget(out);
    }

    #[kani::proof]
    #[kani::unwind(10)]
    fn len_twin_must_fail() {
        let l: usize = kani::any();
        let out = lber::write::verif_write_length(l);
        assert!(out.len() != 4, "twin: deliberately false");
        std::mem::forget(out);
    }

    fn any_class() -> TagClass {
        let c: u8 = kani::any();
        kani::assume(c < 4);
        match c {
            0 => TagClass::Universal,
            1 => TagClass::Application,
            2 => TagClass::Context,
            _ => TagClass::Private,
        }
    }

    #[kani::proof]
    #[kani::unwind(4)]
    fn ident_octet() {
        let class = any_class();
        let cons: bool = kani::any();
        let id: u64 = kani::any();
        kani::assume(id <= 30);
        let st = if cons { TagStructure::Constructed } else { TagStructure::Primitive };
        let out = lber::write::verif_write_type(class, st, id);
        assert!(out.len() == 1, "low-tag-number form is one octet");
        let expect = ((class as u8) << 6) | ((cons as u8) << 5) | (id as u8);
        assert!(out[0] == expect, "identifier octet layout (X.690 8.1.2)");
        let buf = [out[0], kani::any()];
        match lber::parse::verif_parse_type_header(&buf[..]) {
            Ok((rest, (c2, s2, id2))) => {
                assert!(c2 == class && s2 == st && id2 == id, "header parser inverts writer");
                assert!(rest.len() == 1 && rest[0] == buf[1]);
            }
            Err(_) => assert!(false, "header rejected"),
        }
        std::mem::forget(out);
    }

    #[kani::proof]
    #[kani::unwind(4)]
    fn bool_ff() {
        let b: bool = kani::any();
        let class = any_class();
        let id: u64 = kani::any();
        let st = Boolean { id, class, inner: b }.into_structure();
        assert!(st.id == id && st.class == class);
        match st.payload {
            PL::P(o) => {
                assert!(o.len() == 1);
                assert!(o[0] == if b { 0xFF } else { 0x00 }, "BOOLEAN TRUE is 0xFF, FALSE 0x00");
                std::mem::forget(o);
            }
            PL::C(_) => assert!(false),
        }
    }
}
