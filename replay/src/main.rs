//! Native replay binary: runs the REAL lber/ldap3 code (built from /repo's working tree, feature
//! `verif`) on one JSON case and prints the outcome as JSON.  Used (a) by the self-test of the MIR
//! executor (interpreter vs. native on concrete inputs) and (b) to reproduce every solver
//! counterexample before it is reported as a VIOLATION.
//!
//! usage: verif_replay <case.json>      (or `-` for stdin; a JSON array runs a batch)
use bytes::BytesMut;
use lber::common::TagClass;
use lber::structure::{StructureTag, PL};
use lber::structures::{ASNTag, Enumerated, Integer, Tag};
use serde_json::{json, Value};
use std::collections::HashSet;
use std::panic::{catch_unwind, AssertUnwindSafe};

mod asyncr;
mod asyncs;
mod script;

fn class_of(n: u64) -> TagClass {
    match n {
        0 => TagClass::Universal,
        1 => TagClass::Application,
        2 => TagClass::Context,
        _ => TagClass::Private,
    }
}

pub fn bytes_of(v: &Value) -> Vec<u8> {
    match v {
        Value::Array(a) => a.iter().map(|x| x.as_u64().unwrap() as u8).collect(),
        Value::String(s) => s.as_bytes().to_vec(),
        _ => panic!("bytes expected"),
    }
}

pub fn tree_of(v: &Value) -> StructureTag {
    let class = class_of(v["cl"].as_u64().unwrap());
    let id = v["id"].as_u64().unwrap();
    let payload = if let Some(p) = v.get("p") {
        PL::P(bytes_of(p))
    } else {
        PL::C(v["c"].as_array().unwrap().iter().map(tree_of).collect())
    };
    StructureTag { class, id, payload }
}

pub fn tag_of(v: &Value) -> Tag {
    use lber::structures::{Boolean, ExplicitTag, Null, OctetString, Sequence, Set};
    let k = v["k"].as_str().unwrap();
    if k == "StructureTag" {
        return Tag::StructureTag(tree_of(&v["tree"]));
    }
    let id = v["id"].as_u64().unwrap();
    let class = class_of(v["cl"].as_u64().unwrap());
    match k {
        "Integer" => Tag::Integer(Integer { id, class, inner: v["v"].as_i64().unwrap() }),
        "Enumerated" => Tag::Enumerated(Enumerated { id, class, inner: v["v"].as_i64().unwrap() }),
        "OctetString" => Tag::OctetString(OctetString { id, class, inner: bytes_of(&v["bytes"]) }),
        "Boolean" => Tag::Boolean(Boolean { id, class, inner: v["b"].as_bool().unwrap() }),
        "Null" => Tag::Null(Null { id, class, inner: () }),
        "Sequence" => Tag::Sequence(Sequence { id, class, inner: v["inner"].as_array().unwrap().iter().map(tag_of).collect() }),
        "Set" => Tag::Set(Set { id, class, inner: v["inner"].as_array().unwrap().iter().map(tag_of).collect() }),
        "ExplicitTag" => Tag::ExplicitTag(ExplicitTag { id, class, inner: Box::new(tag_of(&v["inner"])) }),
        _ => panic!("tag kind"),
    }
}

pub fn tree_json(t: &StructureTag) -> Value {
    match &t.payload {
        PL::P(b) => json!({"cl": t.class as u8, "id": t.id, "p": b}),
        PL::C(c) => json!({"cl": t.class as u8, "id": t.id, "c": c.iter().map(tree_json).collect::<Vec<_>>()}),
    }
}

pub fn ctrl_json(c: &ldap3::controls::Control) -> Value {
    json!({"known": c.0.map(|k| format!("{:?}", k)), "oid": c.1.ctype.as_bytes(), "crit": c.1.crit, "val": c.1.val})
}

fn raw_ctrl_of(v: &Value) -> ldap3::controls::RawControl {
    ldap3::controls::RawControl {
        ctype: String::from_utf8(bytes_of(&v["oid"])).expect("oid utf8 in case file"),
        crit: v["crit"].as_bool().unwrap_or(false),
        val: v.get("val").and_then(|x| if x.is_null() { None } else { Some(bytes_of(x)) }),
    }
}

fn nom_res(r: nom::IResult<&[u8], StructureTag>) -> Value {
    match r {
        Ok((rest, t)) => json!({"r": "ok", "rest": rest, "tree": tree_json(&t)}),
        Err(nom::Err::Incomplete(_)) => json!({"r": "incomplete"}),
        Err(nom::Err::Error(_)) => json!({"r": "error"}),
        Err(nom::Err::Failure(_)) => json!({"r": "failure"}),
    }
}

fn ldap_result_json(r: &ldap3::LdapResult) -> Value {
    json!({"rc": r.rc, "matched": r.matched.as_bytes(), "text": r.text.as_bytes(),
           "refs": r.refs.iter().map(|s| s.as_bytes().to_vec()).collect::<Vec<_>>(),
           "ctrls": r.ctrls.iter().map(ctrl_json).collect::<Vec<_>>()})
}

fn run(case: &Value) -> Value {
    let cmd = case["cmd"].as_str().unwrap_or("");
    match cmd {
        "int" => {
            let v: i64 = case["v"].as_i64().unwrap();
            let a = Integer { id: 2, class: TagClass::Universal, inner: v }.into_structure();
            let b = Enumerated { id: 10, class: TagClass::Universal, inner: v }.into_structure();
            json!({"int": tree_json(&a), "enum": tree_json(&b)})
        }
        "len" => {
            let l = case["l"].as_u64().unwrap() as usize;
            let out = lber::write::verif_write_length(l);
            let back = match lber::parse::verif_parse_length(&out) {
                Ok((rest, n)) => json!({"r": "ok", "rest": rest.len(), "n": n as u64}),
                Err(_) => json!({"r": "err"}),
            };
            json!({"bytes": out, "back": back})
        }
        "parse_tag" => {
            let b = bytes_of(&case["bytes"]);
            nom_res(lber::parse::parse_tag(&b))
        }
        "encode_tree" => {
            let t = tree_of(&case["tree"]);
            let mut buf = BytesMut::new();
            lber::write::encode_into(&mut buf, t).unwrap();
            json!({"bytes": buf.to_vec()})
        }
        "roundtrip" => {
            let t = tree_of(&case["tree"]);
            let mut buf = BytesMut::new();
            lber::write::encode_into(&mut buf, t).unwrap();
            let enc = buf.to_vec();
            let mut all = enc.clone();
            all.extend(bytes_of(&case["trail"]));
            json!({"bytes": enc, "parsed": nom_res(lber::parse::parse_tag(&all))})
        }
        "tag_into_structure" => {
            let t = tag_of(&case["tag"]);
            json!({"tree": tree_json(&t.into_structure())})
        }
        "decode" => {
            let b = bytes_of(&case["bytes"]);
            let mut buf = BytesMut::from(&b[..]);
            match ldap3::verif_hooks::decode(&mut buf) {
                Ok(None) => json!({"r": "none", "left": buf.len()}),
                Ok(Some((id, tag, ctrls))) => {
                    let st = tag.into_structure();
                    json!({"r": "some", "id": id, "op": tree_json(&st), "left": buf.len(),
                           "ctrls": ctrls.iter().map(ctrl_json).collect::<Vec<_>>()})
                }
                Err(_) => json!({"r": "err", "left": buf.len()}),
            }
        }
        "prefixes" => {
            let frame = bytes_of(&case["frame"]);
            let trail = bytes_of(&case["trail"]);
            let dec = |b: &[u8]| -> Value {
                let mut buf = BytesMut::from(b);
                match ldap3::verif_hooks::decode(&mut buf) {
                    Ok(None) => json!({"r": "none", "left": buf.len()}),
                    Ok(Some((id, tag, ctrls))) => {
                        let st = tag.into_structure();
                        json!({"r": "some", "id": id, "op": tree_json(&st), "left": buf.len(), "ctrls": ctrls.iter().map(ctrl_json).collect::<Vec<_>>()})
                    }
                    Err(_) => json!({"r": "err", "left": buf.len()}),
                }
            };
            let mut with = vec![];
            for j in 1..=trail.len() {
                let mut b = frame.clone();
                b.extend(&trail[..j]);
                with.push(dec(&b));
            }
            let prefix: Vec<Value> = (0..frame.len()).map(|k| dec(&frame[..k])).collect();
            json!({"exact": dec(&frame), "with": with, "prefix": prefix})
        }
        "decode_result" => {
            let b = bytes_of(&case["bytes"]);
            let mut buf = BytesMut::from(&b[..]);
            match ldap3::verif_hooks::decode(&mut buf) {
                Ok(None) => json!({"r": "none", "left": buf.len()}),
                Ok(Some((id, tag, ctrls))) => {
                    let optag = tag.clone().into_structure().id;
                    let (r, exop, sasl) = ldap3::verif_hooks::result_ext(tag);
                    json!({"r": "some", "id": id, "optag": optag, "left": buf.len(), "result": ldap_result_json(&r),
                           "exop_name": exop.name.map(|s| s.into_bytes()), "exop_val": exop.val, "sasl": sasl,
                           "ctrls": ctrls.iter().map(ctrl_json).collect::<Vec<_>>()})
                }
                Err(_) => json!({"r": "err", "left": buf.len()}),
            }
        }
        "helper" => {
            use ldap3::result::{CompareResult, ExopResult};
            let rc = case["rc"].as_u64().unwrap() as u32;
            let res = ldap3::LdapResult { rc, matched: String::new(), text: String::new(), refs: vec![], ctrls: vec![] };
            let exop = ldap3::exop::Exop { name: None, val: None };
            match case["fn"].as_str().unwrap() {
                "LdapResult::success" => json!({"ok": res.success().is_ok()}),
                "LdapResult::non_error" => json!({"ok": res.non_error().is_ok()}),
                "SearchResult::success" => json!({"ok": ldap3::SearchResult(vec![], res).success().is_ok()}),
                "SearchResult::non_error" => json!({"ok": ldap3::SearchResult(vec![], res).non_error().is_ok()}),
                "CompareResult::equal" => match CompareResult(res).equal() { Ok(b) => json!({"ok": true, "val": b}), Err(_) => json!({"ok": false}) },
                "CompareResult::non_error" => json!({"ok": CompareResult(res).non_error().is_ok()}),
                "ExopResult::success" => json!({"ok": ExopResult(exop, res).success().is_ok()}),
                "ExopResult::non_error" => json!({"ok": ExopResult(exop, res).non_error().is_ok()}),
                _ => json!({"r": "unknown-fn"}),
            }
        }
        "decode_and_convert" => {
            let b = bytes_of(&case["bytes"]);
            let mut buf = BytesMut::from(&b[..]);
            match ldap3::verif_hooks::decode(&mut buf) {
                Ok(None) => json!({"r": "none", "left": buf.len()}),
                Ok(Some((id, tag, ctrls))) => {
                    let st = tag.clone().into_structure();
                    if st.id == 5 {
                        // what the driver does with a SearchResultDone for a search ID
                        let _r: ldap3::LdapResult = ldap3::LdapResult::from(tag);
                    }
                    json!({"r": "some", "id": id, "op": tree_json(&st), "left": buf.len(),
                           "ctrls": ctrls.iter().map(ctrl_json).collect::<Vec<_>>()})
                }
                Err(_) => json!({"r": "err", "left": buf.len()}),
            }
        }
        "nest_probe" => {
            // `deep` nested constructed TLVs, parsed on this thread's stack
            let deep = case["deep"].as_u64().unwrap() as usize;
            let mut rev: Vec<u8> = vec![0x00, 0x30];
            for _ in 1..deep {
                let mut hdr = vec![0x30u8];
                hdr.extend(lber::write::verif_write_length(rev.len()));
                hdr.reverse();
                rev.extend(hdr);
            }
            rev.reverse();
            let cur = rev;
            let r = lber::parse::parse_tag(&cur);
            json!({"deep_ok": r.is_ok() || r.is_err(), "len": cur.len()})
        }
        "encode_msg" => {
            let id = case["id"].as_i64().unwrap() as i32;
            let t = tree_of(&case["tree"]);
            let ctrls = case.get("ctrls").and_then(|c| c.as_array()).map(|a| a.iter().map(raw_ctrl_of).collect::<Vec<_>>());
            let mut buf = BytesMut::new();
            ldap3::verif_hooks::encode(id, Tag::StructureTag(t), ctrls, &mut buf).unwrap();
            json!({"bytes": buf.to_vec()})
        }
        "filter" => {
            let b = bytes_of(&case["bytes"]);
            match ldap3::parse_filter(&b) {
                Ok(t) => {
                    let mut buf = BytesMut::new();
                    lber::write::encode_into(&mut buf, t.into_structure()).unwrap();
                    json!({"r": "ok", "ber": buf.to_vec()})
                }
                Err(_) => json!({"r": "err"}),
            }
        }
        "escape" | "dn_escape" | "unescape" => {
            let b = bytes_of(&case["bytes"]);
            let s = match String::from_utf8(b) {
                Ok(s) => s,
                Err(_) => return json!({"r": "input-not-utf8"}),
            };
            match cmd {
                "escape" => {
                    let o = ldap3::ldap_escape(s.as_str());
                    json!({"r": "ok", "out": o.as_bytes(), "borrowed": matches!(o, std::borrow::Cow::Borrowed(_))})
                }
                "dn_escape" => {
                    let o = ldap3::dn_escape(s.as_str());
                    json!({"r": "ok", "out": o.as_bytes(), "borrowed": matches!(o, std::borrow::Cow::Borrowed(_))})
                }
                _ => match ldap3::ldap_unescape(s.as_str()) {
                    Ok(o) => json!({"r": "ok", "out": o.as_bytes(), "borrowed": matches!(o, std::borrow::Cow::Borrowed(_))}),
                    Err(_) => json!({"r": "err"}),
                },
            }
        }
        "escape_unescape" => {
            let s = match String::from_utf8(bytes_of(&case["bytes"])) { Ok(s) => s, Err(_) => return json!({"r": "input-not-utf8"}) };
            let e = ldap3::ldap_escape(s.as_str());
            match ldap3::ldap_unescape(e.as_ref()) {
                Ok(o) => json!({"r": "ok", "out": o.as_bytes(), "borrowed": false}),
                Err(_) => json!({"r": "err"}),
            }
        }
        "escape_in_filter" => {
            let s = match String::from_utf8(bytes_of(&case["bytes"])) { Ok(s) => s, Err(_) => return json!({"r": "input-not-utf8"}) };
            let e = ldap3::ldap_escape(s.as_str());
            let text = if case["where"].as_u64() == Some(0) { format!("(a={})", e) } else { format!("(a=x*{}*y)", e) };
            let ber = match ldap3::parse_filter(&text) {
                Ok(t) => {
                    let mut buf = BytesMut::new();
                    lber::write::encode_into(&mut buf, t.into_structure()).unwrap();
                    Some(buf.to_vec())
                }
                Err(_) => None,
            };
            json!({"esc": e.as_bytes(), "ber": ber})
        }
        "result" => {
            let t = tree_of(&case["tree"]);
            let (r, exop, sasl) = ldap3::verif_hooks::result_ext(Tag::StructureTag(t));
            json!({"result": ldap_result_json(&r), "exop_name": exop.name.map(|s| s.into_bytes()), "exop_val": exop.val, "sasl": sasl})
        }
        "build_control" => {
            let t = ldap3::verif_hooks::controls_build_tag(raw_ctrl_of(&case["ctrl"]));
            json!({"tree": tree_json(&t)})
        }
        "construct" => {
            let t = tree_of(&case["tree"]);
            let se = ldap3::SearchEntry::construct(ldap3::ResultEntry::new(t));
            let mut attrs: Vec<Value> = se.attrs.iter().map(|(k, v)| json!({"name": k.as_bytes(), "vals": v.iter().map(|s| s.as_bytes().to_vec()).collect::<Vec<_>>()})).collect();
            let mut bins: Vec<Value> = se.bin_attrs.iter().map(|(k, v)| json!({"name": k.as_bytes(), "vals": v})).collect();
            attrs.sort_by_key(|v| v["name"].to_string());
            bins.sort_by_key(|v| v["name"].to_string());
            json!({"dn": se.dn.as_bytes(), "attrs": attrs, "bin_attrs": bins})
        }
        "msgid" => {
            let last = case["last"].as_i64().unwrap() as i32;
            let inuse: HashSet<i32> = case["inuse"].as_array().unwrap().iter().map(|x| x.as_i64().unwrap() as i32).collect();
            let mut l = ldap3::verif_hooks::ldap_with_ids(last, inuse);
            let id = ldap3::verif_hooks::next_msgid(&mut l);
            let (nl, mut set) = ldap3::verif_hooks::msgmap_snapshot(&l);
            set.sort();
            json!({"id": id, "last": nl, "inuse": set})
        }
        "unescaper" => {
            let (s, v) = ldap3::verif_hooks::unescaper_step(case["state"].as_u64().unwrap() as u8, case["v"].as_u64().unwrap() as u8, case["c"].as_u64().unwrap() as u8);
            json!({"state": s, "v": v})
        }
        "url_params" => {
            let u = match url::Url::parse(case["url"].as_str().unwrap()) {
                Ok(u) => u,
                Err(e) => return json!({"r": "url-parse-error", "msg": e.to_string()}),
            };
            match ldap3::get_url_params(&u) {
                Ok(p) => {
                    let mut exts: Vec<String> = p.extensions.iter().map(|e| format!("{:?}", e)).collect();
                    exts.sort();
                    json!({"r": "ok", "path": u.path(), "query": u.query(), "base": p.base.as_bytes(), "attrs": p.attrs, "scope": p.scope as u8, "filter": p.filter.as_bytes(), "exts": exts})
                }
                Err(e) => json!({"r": "err", "path": u.path(), "query": u.query(), "kind": format!("{:?}", e).split(|c: char| !c.is_alphanumeric()).next().unwrap_or("").to_string()}),
            }
        }
        c if c.starts_with("async:") || c.starts_with("ctrl:") || c.starts_with("exop:") => asyncr::run(case),
        _ => json!({"r": "unknown-cmd", "cmd": cmd}),
    }
}

thread_local! {
    static PANIC_FILE: std::cell::RefCell<String> = std::cell::RefCell::new(String::new());
}

fn run_guarded(case: &Value) -> Value {
    match catch_unwind(AssertUnwindSafe(|| run(case))) {
        Ok(v) => json!({"outcome": "ok", "value": v}),
        Err(e) => {
            let msg = e.downcast_ref::<String>().cloned().or(e.downcast_ref::<&str>().map(|s| s.to_string())).unwrap_or_default();
            let file = PANIC_FILE.with(|f| f.borrow().clone());
            json!({"outcome": "panic", "msg": msg, "file": file})
        }
    }
}

fn main() {
    std::panic::set_hook(Box::new(|info| {
        let file = info.location().map(|l| l.file().rsplit('/').next().unwrap_or("").to_string()).unwrap_or_default();
        PANIC_FILE.with(|f| *f.borrow_mut() = file);
    }));
    let arg = std::env::args().nth(1).unwrap_or_else(|| "-".into());
    let text = if arg == "-" {
        let mut s = String::new();
        std::io::Read::read_to_string(&mut std::io::stdin(), &mut s).unwrap();
        s
    } else {
        std::fs::read_to_string(&arg).expect("case file")
    };
    let v: Value = serde_json::from_str(&text).expect("case json");
    let out = match &v {
        Value::Array(a) => Value::Array(a.iter().map(run_guarded).collect()),
        _ => run_guarded(&v),
    };
    println!("{}", out);
}
