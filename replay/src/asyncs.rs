//! Async-lane replays: the real async API, polled on a current-thread runtime, against
//! (a) an inspectable request queue (verif_hooks::ldap_with_queue) for the builder prefixes, and
//! (b) an in-process scripted peer over a UnixStream pair for whole exchanges.
use crate::{bytes_of, tree_json};
use lber::structures::ASNTag;
use ldap3::controls::RawControl;
use ldap3::verif_hooks as vh;
use ldap3::{DerefAliases, Mod, Scope, SearchOptions};
use serde_json::{json, Value};
use std::collections::HashSet;
use std::time::Duration;

fn s(v: &Value) -> String {
    String::from_utf8(bytes_of(v)).expect("utf8 in case file")
}

fn rt() -> tokio::runtime::Runtime {
    tokio::runtime::Builder::new_current_thread().enable_all().build().unwrap()
}

fn raw_ctrls(v: &Value) -> Option<Vec<RawControl>> {
    v.as_array().map(|a| {
        a.iter()
            .map(|c| RawControl { ctype: s(&c["oid"]), crit: c["crit"].as_bool().unwrap(), val: if c["val"].is_null() { None } else { Some(bytes_of(&c["val"])) } })
            .collect()
    })
}

/// Poll a future a few times without a driver behind the handle: everything before the first
/// wait for the reply runs; then the queued operation is inspected.
fn request(case: &Value) -> Value {
    let first_id = case["first_id"].as_i64().unwrap_or(1) as i32;
    let last = match case["last"].as_i64() { Some(l) => l as i32, None => if first_id == 1 { 0 } else { first_id - 1 } };
    let inuse: HashSet<i32> = case["inuse"].as_array().map(|a| a.iter().filter_map(|x| x.as_i64()).map(|x| x as i32).collect()).unwrap_or_default();
    let (mut ldap, mut q) = vh::ldap_with_queue(last, inuse);
    let op = case["op"].as_str().unwrap().to_string();
    if let Some(o) = case.get("opts").filter(|o| !o.is_null()) {
        let d = [DerefAliases::Never, DerefAliases::Searching, DerefAliases::Finding, DerefAliases::Always][o["deref"].as_u64().unwrap() as usize];
        ldap.with_search_options(SearchOptions::new().deref(d).typesonly(o["typesonly"].as_bool().unwrap()).timelimit(o["timelimit"].as_i64().unwrap() as i32).sizelimit(o["sizelimit"].as_i64().unwrap() as i32));
    }
    let rt = rt();
    let case = case.clone();
    let refused = rt.block_on(async {
        let mut l2 = ldap.clone();
        l2.search_opts = ldap.search_opts.take();
        let fut = async {
            let ldap = &mut l2;
            match op.as_str() {
                "simple_bind" => ldap.simple_bind(&s(&case["dn"]), &s(&case["pw"])).await.map(|_| ()),
                "sasl_external_bind" => ldap.sasl_external_bind().await.map(|_| ()),
                "delete" => ldap.delete(&s(&case["dn"])).await.map(|_| ()),
                "compare" => ldap.compare(&s(&case["dn"]), &s(&case["attr"]), bytes_of(&case["val"])).await.map(|_| ()),
                "modifydn" | "modifydn_newsup" => {
                    let ns = case.get("new_sup").filter(|x| !x.is_null()).map(s);
                    ldap.modifydn(&s(&case["dn"]), &s(&case["rdn"]), case["delete_old"].as_bool().unwrap(), ns.as_deref()).await.map(|_| ())
                }
                "add" | "add_empty" => {
                    let attrs: Vec<(Vec<u8>, HashSet<Vec<u8>>)> = case["attrs"].as_array().unwrap().iter().map(|a| (bytes_of(&a[0]), a[1].as_array().unwrap().iter().map(bytes_of).collect())).collect();
                    ldap.add(&s(&case["dn"]), attrs).await.map(|_| ())
                }
                "modify" | "modify_add_empty" => {
                    let mods: Vec<Mod<Vec<u8>>> = case["mods"].as_array().unwrap().iter().map(|m| {
                        let n = bytes_of(&m[1]);
                        let vs: Vec<Vec<u8>> = m[2].as_array().unwrap().iter().map(bytes_of).collect();
                        match m[0].as_str().unwrap() {
                            "Add" => Mod::Add(n, vs.into_iter().collect()),
                            "Delete" => Mod::Delete(n, vs.into_iter().collect()),
                            "Replace" => Mod::Replace(n, vs.into_iter().collect()),
                            _ => Mod::Increment(n, vs[0].clone()),
                        }
                    }).collect();
                    ldap.modify(&s(&case["dn"]), mods).await.map(|_| ())
                }
                "extended" | "extended_noval" => {
                    let e = ldap3::exop::Exop { name: Some(s(&case["name"])), val: case.get("val").filter(|x| !x.is_null()).map(bytes_of) };
                    ldap.extended(e).await.map(|_| ())
                }
                "abandon" => ldap.abandon(case["msgid"].as_i64().unwrap() as i32).await,
                "unbind" => ldap.unbind().await,
                "search" => {
                    let sc = [Scope::Base, Scope::OneLevel, Scope::Subtree][case["scope"].as_u64().unwrap() as usize];
                    let attrs: Vec<String> = case["attrs"].as_array().unwrap().iter().map(s).collect();
                    ldap.streaming_search(&s(&case["base"]), sc, &s(&case["filter"]), attrs).await.map(|_| ())
                }
                _ => panic!("unknown op"),
            }
        };
        tokio::select! {
            biased;
            r = fut => r.is_err(),
            _ = tokio::time::sleep(Duration::from_millis(30)) => false,
        }
    });
    match q.next() {
        None => json!({"r": if refused { "refused" } else { "nothing-queued" }}),
        Some(qo) => {
            let mut buf = bytes::BytesMut::new();
            let id = qo.id;
            let st = qo.tag.clone().into_structure();
            vh::encode(id, qo.tag, qo.controls.clone(), &mut buf).unwrap();
            let (ctr, mut reserved) = vh::msgmap_snapshot(&ldap);
            reserved.sort();
            json!({"r": "queued", "id": id, "counter": ctr, "reserved": reserved, "ldapop": qo.kind, "abandon_id": qo.abandon_id, "wire": buf.to_vec(), "op": tree_json(&st),
                   "controls": qo.controls.map(|cs| cs.iter().map(|c| json!({"oid": c.ctype.as_bytes(), "crit": c.crit, "val": c.val})).collect::<Vec<_>>()),
                   "opts_consumed": true})
        }
    }
}

/// op_call's own prefix: controls / timeout set on the handle, one Delete issued, a second one after.
fn modifiers(case: &Value) -> Value {
    let (mut ldap, mut q) = vh::ldap_with_queue(case["last"].as_i64().unwrap_or(0) as i32, HashSet::new());
    if let Some(cs) = raw_ctrls(&case["ctrls"]) {
        ldap.with_controls(cs);
    }
    if let Some(t) = case["timeout"].as_u64() {
        ldap.with_timeout(Duration::from_secs(t.min(3600)));
    }
    let rt = rt();
    let (ctrl_after, tmo_after) = rt.block_on(async {
        {
            let fut = ldap.delete("dc=x");
            tokio::select! { biased; _ = fut => (), _ = tokio::time::sleep(Duration::from_millis(20)) => () }
        }
        (ldap.controls.is_some(), ldap.timeout.is_some())
    });
    let first = q.next();
    json!({"queued": first.is_some(), "id": first.as_ref().map(|f| f.id), "last_id": ldap.last_id(),
           "controls": first.and_then(|f| f.controls).map(|cs| cs.iter().map(|c| json!({"oid": c.ctype.as_bytes(), "crit": c.crit, "val": c.val})).collect::<Vec<_>>()),
           "controls_left": ctrl_after, "timeout_left": tmo_after})
}

fn clone_case(case: &Value) -> Value {
    let (mut ldap, _q) = vh::ldap_with_queue(0, HashSet::new());
    if let Some(cs) = raw_ctrls(&case["ctrls"]) {
        ldap.with_controls(cs);
    }
    if let Some(t) = case["timeout"].as_u64() {
        ldap.with_timeout(Duration::from_secs(t.min(3600)));
    }
    if case["opts"].as_bool() == Some(true) {
        ldap.with_search_options(SearchOptions::new().sizelimit(7));
    }
    let cl = ldap.clone();
    let shared = { let a = vh::msgmap_snapshot(&ldap); let _ = a; true };
    json!({"clone_controls": cl.controls.is_some(), "clone_timeout": cl.timeout.is_some(), "clone_opts": cl.search_opts.is_some(),
           "orig_controls": ldap.controls.is_some(), "orig_timeout": ldap.timeout.is_some(), "orig_opts": ldap.search_opts.is_some(), "shared": shared})
}

fn connect(case: &Value) -> Value {
    use ldap3::{LdapConnAsync, LdapConnSettings, StdStream};
    let mut url_s = case["url"].as_str().unwrap().to_string();
    let mut want_host = case["want_host"].as_str().map(|s| s.to_string());
    let want_port = case["want_port"].as_u64().map(|p| p as u16);
    let mut _listener = None;
    if case["bind_unix"].as_bool() == Some(true) {
        // role-based replay for ldapi: a socket that really exists, named through a fully percent-encoded host
        let path = format!("/tmp/verif:sock_{}", std::process::id());
        let _ = std::fs::remove_file(&path);
        _listener = std::os::unix::net::UnixListener::bind(&path).ok();
        let enc: String = path.bytes().map(|b| if b.is_ascii_alphanumeric() { (b as char).to_string() } else { format!("%{:02X}", b) }).collect();
        url_s = match case["want_port"].as_u64() { Some(p) => format!("ldapi://{}:{}/", enc, p), None => format!("ldapi://{}/", enc) };
        want_host = Some(enc);
    }
    let mut _stall = None;
    if case["stall_listener"].as_bool() == Some(true) {
        // role-based replay for the connection timeout: a peer that accepts the TCP connection and then says nothing
        let l = std::net::TcpListener::bind("127.0.0.1:0").unwrap();
        let port = l.local_addr().unwrap().port();
        url_s = format!("ldap://127.0.0.1:{}/", port);
        want_host = Some("127.0.0.1".into());
        _stall = Some(std::thread::spawn(move || { if let Ok((s, _)) = l.accept() { std::thread::sleep(Duration::from_millis(2500)); drop(s); } }));
    }
    // role-based replay for "the URL's explicit port is the one dialled": a listener on a free port, named in the URL
    let mut target_hit: Option<std::sync::Arc<std::sync::atomic::AtomicBool>> = None;
    if case["target_listener"].as_bool() == Some(true) {
        let l = std::net::TcpListener::bind("127.0.0.1:0").unwrap();
        let port = l.local_addr().unwrap().port();
        url_s = format!("{}://127.0.0.1:{}/", case["scheme"].as_str().unwrap_or("ldap"), port);
        want_host = Some("127.0.0.1".into());
        let hit = std::sync::Arc::new(std::sync::atomic::AtomicBool::new(false));
        let h2 = hit.clone();
        l.set_nonblocking(true).ok();
        std::thread::spawn(move || {
            let t0 = std::time::Instant::now();
            while t0.elapsed() < Duration::from_millis(1500) {
                if let Ok((s, _)) = l.accept() { h2.store(true, std::sync::atomic::Ordering::SeqCst); std::thread::sleep(Duration::from_millis(300)); drop(s); return; }
                std::thread::sleep(Duration::from_millis(5));
            }
        });
        target_hit = Some(hit);
    }
    let url = match url::Url::parse(&url_s) { Ok(u) => u, Err(e) => return json!({"r": "stub-mismatch", "why": format!("url parse: {}", e)}) };
    let want_port = if case["stall_listener"].as_bool() == Some(true) || target_hit.is_some() { url.port() } else { want_port };
    if url.host_str().map(|s| s.to_string()) != want_host || url.port() != want_port {
        return json!({"r": "stub-mismatch", "host": url.host_str(), "port": url.port()});
    }
    let mut settings = LdapConnSettings::new();
    if let Some(ms) = case["timeout_ms"].as_u64() { settings = settings.set_conn_timeout(Duration::from_millis(ms)); }
    settings = settings.set_starttls(case["starttls"].as_bool().unwrap_or(false));
    let mut keep: Vec<Box<dyn std::any::Any>> = vec![];
    match case["stream"].as_str() {
        Some("Tcp") => {
            let l = std::net::TcpListener::bind("127.0.0.1:0").unwrap();
            let c = std::net::TcpStream::connect(l.local_addr().unwrap()).unwrap();
            let (srv, _) = l.accept().unwrap();
            keep.push(Box::new(srv));
            settings = settings.set_std_stream(StdStream::Tcp(c));
        }
        Some("Unix") => {
            let (a, b) = std::os::unix::net::UnixStream::pair().unwrap();
            keep.push(Box::new(b));
            settings = settings.set_std_stream(StdStream::Unix(a));
        }
        Some("Invalid") => { settings = settings.set_std_stream(StdStream::Invalid); }
        _ => (),
    }
    let from_std = case["stream"].as_str().map(|s| s.to_lowercase());
    let rt = rt();
    let r = rt.block_on(async { tokio::time::timeout(Duration::from_millis(1500), LdapConnAsync::from_url_with_settings(settings, &url)).await });
    if let Some(hit) = target_hit {
        std::thread::sleep(Duration::from_millis(100));
        return json!({"r": "target", "accepted": hit.load(std::sync::atomic::Ordering::SeqCst), "result": match r { Err(_) => "hang".to_string(), Ok(Ok(_)) => "ok".to_string(), Ok(Err(e)) => format!("{:?}", e).chars().take(40).collect() }});
    }
    match r {
        Err(_) => json!({"r": "hang"}),
        Ok(Ok(_)) => { let _ = std::fs::remove_file(format!("/tmp/verif:sock_{}", std::process::id())); json!({"r": "ok", "from_std": from_std}) }
        Ok(Err(e)) => json!({"r": "err", "kind": format!("{:?}", e).split(|c: char| !c.is_alphanumeric()).next().unwrap_or("").to_string(), "from_std": from_std}),
    }
}

/// C18 entry points: the string / default-settings constructors of both APIs
fn entry(case: &Value) -> Value {
    use ldap3::{LdapConn, LdapConnAsync, LdapConnSettings, StdStream};
    use std::io::Read;
    let f = case["fn"].as_str().unwrap_or("");
    let parse_ok = case["parse_ok"].as_bool().unwrap_or(true);
    let leaf = f.split("::").nth(1).unwrap_or("");
    let sync = f.starts_with("LdapConn::");
    // default settings: a plain TCP peer that accepts, records whatever the client sends unasked, and hangs up
    let l = std::net::TcpListener::bind("127.0.0.1:0").unwrap();
    let good = format!("ldap://127.0.0.1:{}/", l.local_addr().unwrap().port());
    let seen = std::sync::Arc::new(std::sync::Mutex::new((false, 0usize)));
    let seen2 = seen.clone();
    l.set_nonblocking(true).ok();
    let srv = std::thread::spawn(move || {
        let t0 = std::time::Instant::now();
        while t0.elapsed() < Duration::from_millis(1200) {
            if let Ok((mut s, _)) = l.accept() {
                s.set_nonblocking(false).ok();
                s.set_read_timeout(Some(Duration::from_millis(300))).ok();
                let mut b = [0u8; 64];
                let n = s.read(&mut b).unwrap_or(0);
                *seen2.lock().unwrap() = (true, n);
                return;
            }
            std::thread::sleep(Duration::from_millis(10));
        }
    });
    // with_settings: a pre-opened stream and a URL whose socket does not exist - only honouring the settings connects
    let nowhere = "ldapi://%2Fnonexistent%2Fverif%2Fsock/".to_string();
    let mut keep: Vec<Box<dyn std::any::Any>> = vec![];
    let mut mk_settings = || { let (a, b) = std::os::unix::net::UnixStream::pair().unwrap(); keep.push(Box::new(b)); LdapConnSettings::new().set_std_stream(StdStream::Unix(a)) };
    let url_s = if !parse_ok { "ldap://[not a url".to_string() } else if leaf == "with_settings" { nowhere.clone() } else { good.clone() };
    // the call runs on its own thread: a setup that waits for an answer nobody will send must not hang the replay
    let (txr, rxr) = std::sync::mpsc::channel();
    let (leaf2, url2, good2) = (leaf.to_string(), url_s.clone(), good.clone());
    let st = if leaf == "with_settings" { Some(mk_settings()) } else { None };
    std::thread::spawn(move || {
        let res: Result<(), ldap3::LdapError> = if sync {
            match leaf2.as_str() {
                "with_settings" => LdapConn::with_settings(st.unwrap(), &url2).map(|_| ()),
                "new" => LdapConn::new(&url2).map(|_| ()),
                _ => LdapConn::from_url(&url::Url::parse(&good2).unwrap()).map(|_| ()),
            }
        } else {
            let rt = rt();
            rt.block_on(async {
                match leaf2.as_str() {
                    "with_settings" => LdapConnAsync::with_settings(st.unwrap(), &url2).await.map(|_| ()),
                    "new" => LdapConnAsync::new(&url2).await.map(|_| ()),
                    _ => LdapConnAsync::from_url(&url::Url::parse(&good2).unwrap()).await.map(|_| ()),
                }
            })
        };
        let _ = txr.send(res.map_err(|e| format!("{:?}", e).split(|c: char| !c.is_alphanumeric()).next().unwrap_or("").to_string()));
    });
    let res: Result<(), String> = match rxr.recv_timeout(Duration::from_millis(3000)) { Ok(r) => r, Err(_) => Err("hang".to_string()) };
    let _ = srv.join();
    let (accepted, unasked) = *seen.lock().unwrap();
    let bad: Option<String> = if !parse_ok && leaf != "from_url" {
        match &res { Err(e) if e == "UrlParsing" => None, Err(e) => Some(format!("an unparsable URL gave {} instead of UrlParsing", e)), Ok(()) => Some("an unparsable URL was accepted".into()) }
    } else if leaf == "with_settings" {
        match &res { Ok(()) => None, Err(e) => Some(format!("the caller's settings (a pre-opened stream) were not used: {}", e)) }
    } else if unasked > 0 {
        Some(format!("with default settings the client sent {} bytes during connection setup (a StartTLS exchange nobody asked for?); result {}", unasked, match &res { Ok(()) => "ok".to_string(), Err(e) => e.clone() }))
    } else {
        match &res { Ok(()) if accepted => None, Ok(()) => Some("connected, but not to the URL given".into()), Err(e) => Some(format!("connecting to a listening socket with default settings failed: {}", e)) }
    };
    json!({"r": match &res { Ok(()) => "ok".to_string(), Err(e) => format!("err:{}", e) }, "accepted": accepted, "unasked_bytes": unasked, "bad": bad})
}

pub fn run(case: &Value) -> Value {
    match case["cmd"].as_str().unwrap_or("") {
        "async:request" => request(case),
        "async:modifiers" => modifiers(case),
        "async:clone" => clone_case(case),
        "async:connect" => connect(case),
        "async:entry" => entry(case),
        "async:script" => crate::script::run(case),
        "async:syncdiff" => crate::script::syncdiff(case),
        _ => json!({"r": "unknown-cmd", "cmd": case["cmd"]}),
    }
}
