//! Async-lane replays: the real API against an in-process scripted peer (filled in with lanes B2/B3).
use serde_json::{json, Value};

pub fn run(case: &Value) -> Value {
    json!({"r": "unknown-cmd", "cmd": case["cmd"]})
}
