//! `async:script`: the real client API (async or sync) against an in-process scripted LDAP peer over
//! a UnixStream pair.  Used to reproduce counterexamples of the async lanes natively.
//!
//! server script: [{"replies": [{"id": "req"|n, "op": tree, "ctrls": [tree..]|null, "raw": [bytes]|null}],
//!                  "close_after": bool, "delay_ms": n}]   -- entry k answers the k-th request read
//! steps: [{"do": name, ...}] executed in order; each yields one JSON result.
use crate::{bytes_of, ctrl_json, tree_json, tree_of};
use ldap3::adapters::{Adapter, EntriesOnly, PagedResults};
use ldap3::controls::RawControl;
use ldap3::{LdapConnAsync, LdapConnSettings, LdapError, LdapResult, ResultEntry, Scope, SearchStream, StdStream};
use lber::structure::{StructureTag, PL};
use lber::common::TagClass;
use serde_json::{json, Value};
use std::io::{Read, Write};
use std::os::unix::net::UnixStream;
use std::sync::{Arc, Mutex};
use std::time::Duration;

fn s(v: &Value) -> String {
    String::from_utf8(bytes_of(v)).expect("utf8 in case file")
}

fn read_msg(sock: &mut UnixStream) -> Option<Vec<u8>> {
    let mut hdr = [0u8; 2];
    sock.read_exact(&mut hdr).ok()?;
    let mut out = hdr.to_vec();
    let len = if hdr[1] < 128 { hdr[1] as usize } else {
        let n = (hdr[1] & 0x7f) as usize;
        let mut lb = vec![0u8; n];
        sock.read_exact(&mut lb).ok()?;
        out.extend(&lb);
        lb.iter().fold(0usize, |a, b| (a << 8) | *b as usize)
    };
    let mut body = vec![0u8; len];
    sock.read_exact(&mut body).ok()?;
    out.extend(body);
    Some(out)
}

fn req_id(msg: &[u8]) -> i64 {
    match lber::parse::parse_tag(msg) {
        Ok((_, t)) => match t.payload {
            PL::C(kids) => match kids.first().map(|k| &k.payload) {
                Some(PL::P(b)) => b.iter().fold(0i64, |a, x| (a << 8) | *x as i64),
                _ => -1,
            },
            _ => -1,
        },
        _ => -1,
    }
}

fn int_tree(v: i64) -> StructureTag {
    use lber::structures::{ASNTag, Integer};
    Integer { id: 2, class: TagClass::Universal, inner: v }.into_structure()
}

fn encode_reply(r: &Value, rid: i64) -> Vec<u8> {
    if let Some(raw) = r.get("raw").filter(|x| !x.is_null()) {
        return bytes_of(raw);
    }
    let id = if r["id"].as_str() == Some("req") { rid } else { r["id"].as_i64().unwrap_or(rid) };
    let mut kids = vec![int_tree(id), tree_of(&r["op"])];
    if let Some(cs) = r.get("ctrls").and_then(|c| c.as_array()) {
        kids.push(StructureTag { class: TagClass::Context, id: 0, payload: PL::C(cs.iter().map(tree_of).collect()) });
    }
    let msg = StructureTag { class: TagClass::Universal, id: 16, payload: PL::C(kids) };
    let mut buf = bytes::BytesMut::new();
    lber::write::encode_into(&mut buf, msg).unwrap();
    buf.to_vec()
}

fn server(mut sock: UnixStream, script: Vec<Value>, log: Arc<Mutex<Vec<Vec<u8>>>>) {
    let mut k = 0usize;
    loop {
        let msg = match read_msg(&mut sock) { Some(m) => m, None => break };
        let rid = req_id(&msg);
        log.lock().unwrap().push(msg);
        if let Some(e) = script.get(k) {
            if let Some(ms) = e["delay_ms"].as_u64() { std::thread::sleep(Duration::from_millis(ms)); }
            for r in e["replies"].as_array().cloned().unwrap_or_default() {
                let b = encode_reply(&r, rid);
                if let Some(ms) = r["delay_ms"].as_u64() { std::thread::sleep(Duration::from_millis(ms)); }
                if sock.write_all(&b).is_err() { return; }
            }
            if e["shutdown_read_after"].as_bool() == Some(true) {
                // stop reading: the client's next write fails (EPIPE) while its read side stays open
                let _ = sock.shutdown(std::net::Shutdown::Read);
                std::thread::sleep(Duration::from_millis(1800));
                return;
            }
            if e["close_after"].as_bool() == Some(true) {
                let _ = sock.shutdown(std::net::Shutdown::Both);
                return;
            }
        }
        k += 1;
    }
}

fn err_kind(e: &LdapError) -> String {
    format!("{:?}", e).split(|c: char| !c.is_alphanumeric()).next().unwrap_or("").to_string()
}

fn result_json(r: &LdapResult) -> Value {
    json!({"rc": r.rc, "matched": r.matched.as_bytes(), "text": r.text.as_bytes(), "refs": r.refs.iter().map(|s| s.as_bytes().to_vec()).collect::<Vec<_>>(),
           "ctrls": r.ctrls.iter().map(ctrl_json).collect::<Vec<_>>()})
}

fn res_json<T>(r: Result<T, LdapError>, f: impl Fn(&T) -> Value) -> Value {
    match r { Ok(v) => json!({"ok": f(&v)}), Err(e) => json!({"err": err_kind(&e)}) }
}

fn entry_json(e: &ResultEntry) -> Value {
    json!({"entry": tree_json(&e.0), "ctrls": e.1.iter().map(ctrl_json).collect::<Vec<_>>()})
}

/// Test adapter: passes `left` items through, then fails (the stream enters the Error state while the
/// search is still open at the server) - the situation a policy adapter creates when it rejects an item.
#[derive(Clone, Debug)]
struct FailAfter { left: usize }

impl ldap3::adapters::SoloMarker for FailAfter {}

#[async_trait::async_trait]
impl<'a, S, A> Adapter<'a, S, A> for FailAfter
where
    S: AsRef<str> + Send + Sync + 'a,
    A: AsRef<[S]> + Send + Sync + 'a,
{
    async fn start(&mut self, stream: &mut SearchStream<'a, S, A>, base: &str, scope: Scope, filter: &str, attrs: A) -> ldap3::result::Result<()> {
        stream.start(base, scope, filter, attrs).await
    }

    async fn next(&mut self, stream: &mut SearchStream<'a, S, A>) -> ldap3::result::Result<Option<ResultEntry>> {
        let r = stream.next().await?;
        if r.is_some() {
            if self.left == 0 { return Err(LdapError::AdapterInit(String::from("item rejected by the adapter"))); }
            self.left -= 1;
        }
        Ok(r)
    }

    async fn finish(&mut self, stream: &mut SearchStream<'a, S, A>) -> LdapResult {
        stream.finish().await
    }
}

fn adapters_of<'a>(v: &Value) -> Vec<Box<dyn Adapter<'a, String, Vec<String>> + 'a>> {
    let mut out: Vec<Box<dyn Adapter<'a, String, Vec<String>> + 'a>> = vec![];
    for a in v.as_array().cloned().unwrap_or_default() {
        if a.as_str() == Some("EntriesOnly") { out.push(Box::new(EntriesOnly::new())); }
        else if let Some(n) = a["Paged"].as_i64() { out.push(Box::new(PagedResults::new(n as i32))); }
        else if let Some(n) = a["FailAfter"].as_u64() { out.push(Box::new(FailAfter { left: n as usize })); }
    }
    out
}

fn scope_of(v: &Value) -> Scope {
    [Scope::Base, Scope::OneLevel, Scope::Subtree][v.as_u64().unwrap_or(2) as usize]
}

fn raw_ctrls(v: &Value) -> Vec<RawControl> {
    v.as_array().cloned().unwrap_or_default().iter().map(|c| RawControl { ctype: s(&c["oid"]), crit: c["crit"].as_bool().unwrap_or(false),
        val: if c["val"].is_null() { None } else { Some(bytes_of(&c["val"])) } }).collect()
}

const STEP_MS: u64 = 1500;

async fn guard<T>(f: impl std::future::Future<Output = T>) -> Option<T> {
    tokio::time::timeout(Duration::from_millis(STEP_MS), f).await.ok()
}

async fn run_async(case: &Value, client: UnixStream) -> (Vec<Value>, Vec<i32>, String) {
    let settings = LdapConnSettings::new().set_std_stream(StdStream::Unix(client));
    let (conn, ldap0) = LdapConnAsync::with_settings(settings, "ldapi://x").await.expect("conn");
    let driver = tokio::spawn(async move { conn.drive().await });
    let mut handles = vec![ldap0];
    let mut cur = 0usize;
    let mut stream: Option<SearchStream<'static, String, Vec<String>>> = None;
    let mut out = vec![];
    let mut spawned: Vec<tokio::task::JoinHandle<Value>> = vec![];
    for st in case["steps"].as_array().cloned().unwrap_or_default() {
        let name = st["do"].as_str().unwrap_or("").to_string();
        if name == "drop_handles" {
            handles.clear();
            stream = None;
            tokio::time::sleep(Duration::from_millis(150)).await;
            out.push(json!({"do": name, "r": if driver.is_finished() { "driver-finished" } else { "driver-running" }}));
            continue;
        }
        if handles.is_empty() { out.push(json!({"do": name, "r": "no-handle"})); continue; }
        if name == "spawn_delete" {
            let mut h = handles[cur].clone();
            let dn = s(&st["dn"]);
            spawned.push(tokio::spawn(async move { match guard(h.delete(&dn)).await { Some(r) => res_json(r, result_json), None => json!("hang") } }));
            tokio::time::sleep(Duration::from_millis(40)).await;
            out.push(json!({"do": name, "r": "spawned"}));
            continue;
        }
        if name == "abort" {
            // the caller stops waiting without the library noticing (outer timeout / select! / task abort): no scrub
            let r = match spawned.pop() { Some(j) => { j.abort(); let _ = j.await; json!("aborted") }, None => json!("nothing-spawned") };
            out.push(json!({"do": name, "r": r}));
            continue;
        }
        if name == "join" {
            let r = match spawned.pop() { Some(j) => j.await.unwrap_or(json!("join-error")), None => json!("nothing-spawned") };
            out.push(json!({"do": name, "r": r}));
            continue;
        }
        let ldap = &mut handles[cur];
        let r: Value = match name.as_str() {
            "clone_handle" => { let c = handles[cur].clone(); handles.push(c); cur = handles.len() - 1; json!("ok") }
            "use_handle" => { cur = st["n"].as_u64().unwrap() as usize; json!("ok") }
            "with_timeout" => { ldap.with_timeout(Duration::from_millis(st["ms"].as_u64().unwrap())); json!("ok") }
            "with_search_options" => { ldap.with_search_options(ldap3::SearchOptions::new().deref(ldap3::DerefAliases::Finding).typesonly(true).timelimit(9).sizelimit(70)); json!("ok") }
            "with_controls" => { ldap.with_controls(raw_ctrls(&st["ctrls"])); json!("ok") }
            "simple_bind" => match guard(ldap.simple_bind(&s(&st["dn"]), &s(&st["pw"]))).await { Some(r) => res_json(r, result_json), None => json!("hang") },
            "delete_given_up" => {
                // the caller stops waiting from outside (outer timeout on the SAME handle): the future is dropped, no scrub is sent
                match tokio::time::timeout(Duration::from_millis(st["ms"].as_u64().unwrap_or(50)), ldap.delete(&s(&st["dn"]))).await { Ok(r) => res_json(r, result_json), Err(_) => json!("given-up") }
            }
            "delete" => match guard(ldap.delete(&s(&st["dn"]))).await { Some(r) => res_json(r, result_json), None => json!("hang") },
            "compare" => match guard(ldap.compare(&s(&st["dn"]), "a", "v")).await { Some(r) => res_json(r, |c| result_json(&c.0)), None => json!("hang") },
            "whoami" => match guard(ldap.extended(ldap3::exop::WhoAmI)).await { Some(r) => res_json(r, |x| json!({"result": result_json(&x.1), "name": x.0.name, "val": x.0.val})), None => json!("hang") },
            "sasl_external_bind" => match guard(ldap.sasl_external_bind()).await { Some(r) => res_json(r, result_json), None => json!("hang") },
            "modifydn" => {
                let ns: Option<String> = match st.get("new_sup") { None => Some("dc=s".to_string()), Some(Value::Null) => None, Some(v) => Some(s(v)) };
                match guard(ldap.modifydn(&s(&st["dn"]), st["rdn"].as_str().unwrap_or("cn=n"), st["delete_old"].as_bool().unwrap_or(true), ns.as_deref())).await { Some(r) => res_json(r, result_json), None => json!("hang") }
            }
            "add" => match guard(ldap.add(&s(&st["dn"]), vec![("cn", std::collections::HashSet::from(["v"]))])).await { Some(r) => res_json(r, result_json), None => json!("hang") },
            "modify" => match guard(ldap.modify(&s(&st["dn"]), vec![ldap3::Mod::Replace("cn", std::collections::HashSet::from(["v"]))])).await { Some(r) => res_json(r, result_json), None => json!("hang") },
            "abandon" => match guard(ldap.abandon(st["id"].as_i64().unwrap() as i32)).await { Some(r) => res_json(r, |_| json!(null)), None => json!("hang") },
            "unbind" => match guard(ldap.unbind()).await { Some(r) => res_json(r, |_| json!(null)), None => json!("hang") },
            "last_id" => json!(ldap.last_id()),
            "is_closed" => json!(ldap.is_closed()),
            "search" => {
                let attrs: Vec<String> = st["attrs"].as_array().cloned().unwrap_or_default().iter().map(s).collect();
                match guard(ldap.search(&s(&st["base"]), scope_of(&st["scope"]), &s(&st["filter"]), attrs)).await {
                    Some(r) => res_json(r, |sr| json!({"entries": sr.0.iter().map(entry_json).collect::<Vec<_>>(), "result": result_json(&sr.1)})), None => json!("hang") }
            }
            "stream_start" => {
                let attrs: Vec<String> = st["attrs"].as_array().cloned().unwrap_or_default().iter().map(s).collect();
                let ad = adapters_of(&st["adapters"]);
                match guard(ldap.streaming_search_with(ad, &s(&st["base"]), scope_of(&st["scope"]), &s(&st["filter"]), attrs)).await {
                    Some(Ok(sm)) => { stream = Some(sm); json!({"ok": null}) }
                    Some(Err(e)) => json!({"err": err_kind(&e)}),
                    None => json!("hang"),
                }
            }
            "next" => match stream.as_mut() {
                None => json!("no-stream"),
                Some(sm) => {
                    let fut = std::panic::AssertUnwindSafe(guard(sm.next()));
                    match futures_catch(fut).await {
                        Err(msg) => json!({"panic": msg}),
                        Ok(Some(r)) => res_json(r, |o| match o { Some(e) => entry_json(e), None => json!(null) }),
                        Ok(None) => json!("hang"),
                    }
                }
            },
            "finish" => match stream.as_mut() { None => json!("no-stream"), Some(sm) => match guard(sm.finish()).await { Some(r) => json!({"ok": result_json(&r)}), None => json!("hang") } },
            "state" => match stream.as_ref() { None => json!("no-stream"), Some(sm) => json!(format!("{:?}", sm.state())) },
            "stream_last_id" => match stream.as_mut() { None => json!("no-stream"), Some(sm) => json!(sm.ldap_handle().last_id()) },
            "drop_stream" => { stream = None; json!("ok") }
            "sleep" => { tokio::time::sleep(Duration::from_millis(st["ms"].as_u64().unwrap_or(10))).await; json!("ok") }
            "snapshot" => {
                tokio::time::sleep(Duration::from_millis(60)).await;
                let (last, mut inuse) = ldap3::verif_hooks::msgmap_snapshot(&handles[0]);
                inuse.sort();
                json!({"last": last, "inuse": inuse})
            }
            "driver" => { tokio::time::sleep(Duration::from_millis(80)).await; json!(if driver.is_finished() { "finished" } else { "running" }) }
            _ => json!("unknown-step"),
        };
        out.push(json!({"do": name, "r": r}));
    }
    tokio::time::sleep(Duration::from_millis(60)).await;
    let mut inuse = if handles.is_empty() { vec![] } else { ldap3::verif_hooks::msgmap_snapshot(&handles[0]).1 };
    inuse.sort();
    let d = if driver.is_finished() { match driver.await { Ok(Ok(())) => "ok".to_string(), Ok(Err(e)) => format!("err:{}", err_kind(&e)), Err(e) => if e.is_panic() { "panic".into() } else { "cancelled".into() } } } else { "running".to_string() };
    (out, inuse, d)
}

async fn futures_catch<F: std::future::Future + std::panic::UnwindSafe>(f: F) -> Result<F::Output, String> {
    use futures_util::FutureExt;
    match f.catch_unwind().await {
        Ok(v) => Ok(v),
        Err(e) => Err(e.downcast_ref::<String>().cloned().or(e.downcast_ref::<&str>().map(|s| s.to_string())).unwrap_or_default()),
    }
}

fn run_sync(case: &Value, client: UnixStream) -> (Vec<Value>, Vec<i32>, String) {
    use ldap3::LdapConn;
    let settings = LdapConnSettings::new().set_std_stream(StdStream::Unix(client));
    let mut conn = LdapConn::with_settings(settings, "ldapi://x").expect("conn");
    let mut out = vec![];
    let steps = case["steps"].as_array().cloned().unwrap_or_default();
    let mut i = 0;
    while i < steps.len() {
        let st = &steps[i];
        let name = st["do"].as_str().unwrap_or("").to_string();
        let r: Value = match name.as_str() {
            "with_timeout" => { conn.with_timeout(Duration::from_millis(st["ms"].as_u64().unwrap())); json!("ok") }
            "with_search_options" => { conn.with_search_options(ldap3::SearchOptions::new().deref(ldap3::DerefAliases::Finding).typesonly(true).timelimit(9).sizelimit(70)); json!("ok") }
            "with_controls" => { conn.with_controls(raw_ctrls(&st["ctrls"])); json!("ok") }
            "simple_bind" => res_json(conn.simple_bind(&s(&st["dn"]), &s(&st["pw"])), result_json),
            "delete" => res_json(conn.delete(&s(&st["dn"])), result_json),
            "compare" => res_json(conn.compare(&s(&st["dn"]), "a", "v"), |c| result_json(&c.0)),
            "whoami" => res_json(conn.extended(ldap3::exop::WhoAmI), |x| json!({"result": result_json(&x.1), "name": x.0.name, "val": x.0.val})),
            "sasl_external_bind" => res_json(conn.sasl_external_bind(), result_json),
            "modifydn" => {
                let ns: Option<String> = match st.get("new_sup") { None => Some("dc=s".to_string()), Some(Value::Null) => None, Some(v) => Some(s(v)) };
                res_json(conn.modifydn(&s(&st["dn"]), st["rdn"].as_str().unwrap_or("cn=n"), st["delete_old"].as_bool().unwrap_or(true), ns.as_deref()), result_json)
            }
            "add" => res_json(conn.add(&s(&st["dn"]), vec![("cn", std::collections::HashSet::from(["v"]))]), result_json),
            "modify" => res_json(conn.modify(&s(&st["dn"]), vec![ldap3::Mod::Replace("cn", std::collections::HashSet::from(["v"]))]), result_json),
            "abandon" => res_json(conn.abandon(st["id"].as_i64().unwrap() as i32), |_| json!(null)),
            "unbind" => res_json(conn.unbind(), |_| json!(null)),
            "last_id" => json!(conn.last_id()),
            "is_closed" => json!(conn.is_closed()),
            "sleep" => { std::thread::sleep(Duration::from_millis(st["ms"].as_u64().unwrap_or(10))); json!("ok") }
            "search" => {
                let attrs: Vec<String> = st["attrs"].as_array().cloned().unwrap_or_default().iter().map(s).collect();
                res_json(conn.search(&s(&st["base"]), scope_of(&st["scope"]), &s(&st["filter"]), attrs), |sr| json!({"entries": sr.0.iter().map(entry_json).collect::<Vec<_>>(), "result": result_json(&sr.1)}))
            }
            "stream_start" => {
                // the EntryStream borrows the connection: run the following next/finish/state steps inside
                let attrs: Vec<String> = st["attrs"].as_array().cloned().unwrap_or_default().iter().map(s).collect();
                let ad = adapters_of(&st["adapters"]);
                match conn.streaming_search_with(ad, &s(&st["base"]), scope_of(&st["scope"]), &s(&st["filter"]), attrs) {
                    Err(e) => json!({"err": err_kind(&e)}),
                    Ok(es) => {
                        out.push(json!({"do": name, "r": {"ok": null}}));
                        i += 1;
                        let mut es_opt = Some(es);
                        while i < steps.len() {
                            let n2 = steps[i]["do"].as_str().unwrap_or("").to_string();
                            let r2 = match n2.as_str() {
                                "next" => match es_opt.as_mut() { Some(e) => res_json(e.next(), |o| match o { Some(e) => entry_json(e), None => json!(null) }), None => json!("no-stream") },
                                "finish" => match es_opt.take() { Some(e) => json!({"ok": result_json(&e.result())}), None => json!("no-stream") },
                                "stream_last_id" => match es_opt.as_mut() { Some(e) => json!(e.last_id()), None => json!("no-stream") },
                                _ => break,
                            };
                            out.push(json!({"do": n2, "r": r2}));
                            i += 1;
                        }
                        continue;
                    }
                }
            }
            _ => json!("unknown-step"),
        };
        out.push(json!({"do": name, "r": r}));
        i += 1;
    }
    (out, vec![], "n/a".into())
}

/// the same scenarios through the async and the sync API: any difference in step results or request bytes
pub fn syncdiff(case: &Value) -> Value {
    let mut same = true;
    let mut detail = vec![];
    for sc in case["scenarios"].as_array().cloned().unwrap_or_default() {
        let mut a = sc.clone(); a["api"] = json!("async");
        let mut b = sc.clone(); b["api"] = json!("sync");
        let ra = run(&a); let rb = run(&b);
        let eq = ra["steps"] == rb["steps"] && ra["requests"] == rb["requests"];
        if !eq { same = false; }
        detail.push(json!({"name": sc["name"], "equal": eq, "async": ra["steps"], "sync": rb["steps"], "async_requests": ra["requests"].as_array().map(|x| x.len()), "sync_requests": rb["requests"].as_array().map(|x| x.len())}));
    }
    json!({"same": if detail.is_empty() { Value::Null } else { json!(same) }, "scenarios": detail})
}

pub fn run(case: &Value) -> Value {
    let (client, srv) = UnixStream::pair().unwrap();
    srv.set_read_timeout(Some(Duration::from_millis(4000))).ok();
    let log = Arc::new(Mutex::new(Vec::new()));
    let script = case["server"].as_array().cloned().unwrap_or_default();
    let l2 = log.clone();
    let th = std::thread::spawn(move || server(srv, script, l2));
    let api = case["api"].as_str().unwrap_or("async").to_string();
    let (steps, inuse, driver) = if api == "sync" {
        run_sync(case, client)
    } else {
        let rt = tokio::runtime::Builder::new_current_thread().enable_all().build().unwrap();
        let r = rt.block_on(run_async(case, client));
        rt.shutdown_timeout(Duration::from_millis(100));
        r
    };
    let _ = th.join();
    let reqs = log.lock().unwrap().clone();
    json!({"steps": steps, "requests": reqs, "final_inuse": inuse, "driver": driver})
}
