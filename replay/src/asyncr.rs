//! Control / extended-operation codecs (C19) and async-lane replays (scripted in-process peer).
use crate::{bytes_of, ctrl_json, tree_json, tree_of};
use ldap3::controls::{self, ControlParser, MakeCritical, RawControl};
use ldap3::exop::{self, Exop, ExopParser};
use serde_json::{json, Value};

fn s(v: &Value) -> String {
    String::from_utf8(bytes_of(v)).expect("utf8 in case file")
}

fn opt_bytes(v: &Value) -> Option<Vec<u8>> {
    if v.is_null() { None } else { Some(bytes_of(v)) }
}

fn raw_json(rc: RawControl) -> Value {
    json!({"oid": rc.ctype.as_bytes(), "crit": rc.crit, "val": rc.val})
}

fn exop_json(e: Exop) -> Value {
    let tags = ldap3::verif_hooks::exop_tags(e.clone());
    json!({"name": e.name.map(|s| s.into_bytes()), "val": e.val, "tags": tags.iter().map(tree_json).collect::<Vec<_>>()})
}

fn ctrl_req(case: &Value) -> Value {
    let kind = case["kind"].as_str().unwrap();
    let crit = case["critical"].as_bool().unwrap_or(false);
    macro_rules! fin {
        ($c:expr) => {
            if crit { raw_json($c.critical().into()) } else { raw_json($c.into()) }
        };
    }
    match kind {
        "PagedResults" => fin!(controls::PagedResults { size: case["size"].as_i64().unwrap() as i32, cookie: bytes_of(&case["cookie"]) }),
        "SyncRequest" => fin!(controls::SyncRequest {
            mode: if case["mode"].as_u64() == Some(3) { controls::RefreshMode::RefreshAndPersist } else { controls::RefreshMode::RefreshOnly },
            cookie: opt_bytes(&case["cookie"]),
            reload_hint: case["reload_hint"].as_bool().unwrap(),
        }),
        "PreRead" => raw_json(controls::PreRead::new(case["attrs"].as_array().unwrap().iter().map(s).collect::<Vec<_>>())),
        "PostRead" => raw_json(controls::PostRead::new(case["attrs"].as_array().unwrap().iter().map(s).collect::<Vec<_>>())),
        "Assertion" => raw_json(controls::Assertion::new(s(&case["filter"]))),
        "MatchedValues" => raw_json(controls::MatchedValues::new(s(&case["filter"]))),
        "ProxyAuth" => raw_json(controls::ProxyAuth { authzid: s(&case["authzid"]) }.into()),
        "TxnSpec" => { let t = s(&case["txn_id"]); raw_json(controls::TxnSpec { txn_id: &t }.into()) }
        "ManageDsaIt" => fin!(controls::ManageDsaIt),
        "RelaxRules" => fin!(controls::RelaxRules),
        _ => json!({"r": "unknown-kind"}),
    }
}

fn exop_req(case: &Value) -> Value {
    let kind = case["kind"].as_str().unwrap();
    match kind {
        "WhoAmI" => exop_json(exop::WhoAmI.into()),
        "StartTxn" => exop_json(exop::StartTxn.into()),
        "PasswordModify" => {
            let (u, o, n) = (opt_bytes(&case["user_id"]).map(|b| String::from_utf8(b).unwrap()), opt_bytes(&case["old_pass"]).map(|b| String::from_utf8(b).unwrap()), opt_bytes(&case["new_pass"]).map(|b| String::from_utf8(b).unwrap()));
            exop_json(exop::PasswordModify { user_id: u.as_deref(), old_pass: o.as_deref(), new_pass: n.as_deref() }.into())
        }
        "EndTxn" => { let t = s(&case["txn_id"]); exop_json(exop::EndTxn { txn_id: &t, commit: case["commit"].as_bool().unwrap() }.into()) }
        "Raw" => exop_json(Exop { name: opt_bytes(&case["name"]).map(|b| String::from_utf8(b).unwrap()), val: opt_bytes(&case["val"]) }),
        _ => json!({"r": "unknown-kind"}),
    }
}

fn resp(case: &Value) -> Value {
    let kind = case["kind"].as_str().unwrap();
    let val = bytes_of(&case["val"]);
    match kind {
        "PagedResults" => { let p = controls::PagedResults::parse(&val); json!({"size": p.size, "cookie": p.cookie}) }
        "SyncState" => { let p = controls::SyncState::parse(&val); json!({"state": format!("{:?}", p.state), "uuid": p.entry_uuid, "cookie": p.cookie}) }
        "SyncDone" => { let p = controls::SyncDone::parse(&val); json!({"cookie": p.cookie, "refresh_deletes": p.refresh_deletes}) }
        "ReadEntry" => {
            let p = controls::ReadEntryResp::parse(&val);
            let mut attrs: Vec<Value> = p.attrs.iter().map(|(k, v)| json!({"name": k.as_bytes(), "vals": v.iter().map(|s| s.as_bytes().to_vec()).collect::<Vec<_>>()})).collect();
            let mut bins: Vec<Value> = p.bin_attrs.iter().map(|(k, v)| json!({"name": k.as_bytes(), "vals": v})).collect();
            attrs.sort_by_key(|v| v["name"].to_string());
            bins.sort_by_key(|v| v["name"].to_string());
            json!({"attrs": attrs, "bin_attrs": bins})
        }
        "WhoAmI" => json!({"authzid": exop::WhoAmIResp::parse(&val).authzid.as_bytes()}),
        "StartTxn" => json!({"txn_id": exop::StartTxnResp::parse(&val).txn_id.as_bytes()}),
        "PasswordModify" => json!({"gen_pass": exop::PasswordModifyResp::parse(&val).gen_pass.as_bytes()}),
        "SyncInfo" => {
            let t = tree_of(&case["entry"]);
            match controls::parse_syncinfo(ldap3::ResultEntry::new(t)) {
                controls::SyncInfo::NewCookie(c) => json!({"k": "NewCookie", "cookie": c}),
                controls::SyncInfo::RefreshDelete { cookie, refresh_done } => json!({"k": "RefreshDelete", "cookie": cookie, "flag": refresh_done}),
                controls::SyncInfo::RefreshPresent { cookie, refresh_done } => json!({"k": "RefreshPresent", "cookie": cookie, "flag": refresh_done}),
                controls::SyncInfo::SyncIdSet { cookie, refresh_deletes, sync_uuids } => {
                    let mut u: Vec<Vec<u8>> = sync_uuids.into_iter().collect();
                    u.sort();
                    json!({"k": "SyncIdSet", "cookie": cookie, "flag": refresh_deletes, "uuids": u})
                }
            }
        }
        _ => json!({"r": "unknown-kind"}),
    }
}

pub fn run(case: &Value) -> Value {
    match case["cmd"].as_str().unwrap_or("") {
        "ctrl:req" => ctrl_req(case),
        "exop:req" => exop_req(case),
        "ctrl:resp" => resp(case),
        "ctrl:envelope" => {
            // build_tag for each control, wrap as [0], encode inside a message and decode it again
            let ctrls: Vec<RawControl> = case["ctrls"].as_array().unwrap().iter().map(|c| RawControl {
                ctype: s(&c["oid"]), crit: c["crit"].as_bool().unwrap(), val: opt_bytes(&c["val"]) }).collect();
            let mut buf = bytes::BytesMut::new();
            let op = lber::structures::Tag::StructureTag(tree_of(&json!({"cl": 1, "id": 1, "c": []})));
            ldap3::verif_hooks::encode(1, op, Some(ctrls), &mut buf).unwrap();
            let wire = buf.to_vec();
            match ldap3::verif_hooks::decode(&mut buf) {
                Ok(Some((_, _, cs))) => json!({"wire": wire, "ctrls": cs.iter().map(ctrl_json).collect::<Vec<_>>()}),
                _ => json!({"wire": wire, "ctrls": null}),
            }
        }
        _ => crate::asyncs::run(case),
    }
}
