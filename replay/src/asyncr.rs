//! Control / exop codecs and async-lane replays (filled in as the lanes are built).
use serde_json::{json, Value};

pub fn run(case: &Value) -> Value {
    json!({"r": "unknown-cmd", "cmd": case["cmd"]})
}
