#!/usr/bin/env python3
"""Regenerate the table of DESIGN.md §10 between the markers <!-- seedtable:begin/end --> from
seeded/*/meta.json and the latest record per (seed, check) in seeded/sweep_results.jsonl."""
import json, glob, os, re
HERE = os.path.dirname(os.path.dirname(os.path.abspath(__file__)))
latest = {}
for l in open(f'{HERE}/seeded/sweep_results.jsonl'):
    try: r = json.loads(l)
    except Exception: continue
    if 'check' in r: latest[(r['seed'], r['check'])] = r
rows = []
for d in sorted(glob.glob(f'{HERE}/seeded/C*_*/')) + sorted(glob.glob(f'{HERE}/seeded/R_*/')) + sorted(glob.glob(f'{HERE}/seeded/X18_*/')):
    s = os.path.basename(d.rstrip('/'))
    m = json.load(open(d + 'meta.json'))
    summ = re.sub(r'\s+', ' ', m['summary']).split('. ')[0][:170].replace('|', '/')
    res = {c: r for (sd, c), r in latest.items() if sd == s}
    caught = sorted(c for c, r in res.items() if r['exit'] == 1)
    missed = sorted(c for c, r in res.items() if r['exit'] == 0)
    inconc = sorted(c for c, r in res.items() if r['exit'] not in (0, 1))
    what = ''
    if caught:
        r = res[caught[0]]
        w = [x for x in r['lines'] if x.strip().startswith('what:')]
        what = re.sub(r'\s+', ' ', w[0].strip()[5:]).strip()[:150].replace('|', '/') if w else ''
    rows.append(f"| {s} | {summ} | {', '.join(caught) or '—'} | {', '.join(missed) or ''}{(' inconclusive: ' + ', '.join(inconc)) if inconc else ''} | {what} |")
tab = '| seed | change (first sentence of the author\'s summary) | caught by (exit 1, replayed) | passes / inconclusive | first violation reported |\n|---|---|---|---|---|\n' + '\n'.join(rows)
p = f'{HERE}/DESIGN.md'; s = open(p).read()
s2 = re.sub(r'<!-- seedtable:begin -->.*<!-- seedtable:end -->', '<!-- seedtable:begin -->\n' + tab.replace('\\', '\\\\') + '\n<!-- seedtable:end -->', s, flags=re.S)
open(p, 'w').write(s2)
print(len(rows), 'seeds')
