#!/usr/bin/env python3
"""Regenerates /verif/MANIFEST.json from the table below (keeps the file valid at all times)."""
import json
import os

HERE = os.path.dirname(os.path.dirname(os.path.abspath(__file__)))
TECH = 'SMT-decided bounded symbolic execution of the real code: own MIR symbolic executor (rustc -Zunpretty=mir of /repo) with z3 deciding every branch and obligation'
TRUST = ('Trusted: nightly MIR == what stable rustc builds (counterexamples are replayed on the stable build, dev and release); models of std/nom/bytes/tokio callees '
         '(listed per run in the evidence, validated by the concrete differential self-test against the native binary). ')

CLAIMED = {
    'C01': ('Lane B3: one iteration of the real LdapConnAsync::turn coroutine (incl. the expanded tokio::select!) runs from MIR from an arbitrary pre-state (symbolic, pairwise distinct routing IDs; in-use set an unconstrained array) with every awaited foreign future an environment stub; the ready event, the response ID and operation tag, the select! start index and a simultaneously ready second source are symbolic. z3 proves: a response goes to exactly the sender stored under its ID (search table first: tags 4|25 entry, 19 reference, 5 done), unchanged; to nobody if the ID is unknown; no other table entry or sender is touched; a request is filed under its own ID only; the loser of a ready-event race stays queued.',
            TRUST + 'Per-operation ordering rests on the single consumer and FIFO tokio channels (trusted). Byte-level segmentation is C06, ID allocation C05. Counterexamples are reproduced by role against a scripted in-process peer.', '§6 C01'),
    'C04': ('Safety half. Lane B3: one iteration of the real LdapConnAsync::turn coroutine (incl. the expanded tokio::select!) runs from MIR from an arbitrary pre-state (symbolic, pairwise distinct routing IDs; in-use set an unconstrained array) with every awaited foreign future an environment stub; on end-of-stream, receive/decode error, failed write, closed request/misc channel the driver returns (dropping every reply sender) and never fabricates data; Unbind = send, shutdown, close, acknowledge; with all handles gone some resolution of the select! race finishes the driver (reachability). Client side (op_call, stream next): closed channels map to OpSend / ResultRecv / EndOfStream, delivered replies are returned.',
            TRUST + 'NOT decided: that every waiting future is eventually woken ("never hangs") - liveness over wakers and the scheduler. Fault positions inside a byte stream are not enumerated: the stub answers "error now" at each await.', '§6 C04'),
    'C10': ('Lane B3, client side: SearchStream::{next,finish,state} with next_inner/finish_inner and the EntriesOnly adapter (through the async_trait vtable) run from coroutine MIR over 8 item scripts x every call word over next/finish/state of length 1..4 (6) x direct/adapted, contents symbolic; compared call by call with the property\'s state machine (items in order, Ok(None) at the end and outside Active, finish = server result+controls / 88 / 80, Fresh-Active-Done-Closed/Error, reference URIs merged). Ldap::search() collection loop likewise.',
            TRUST + 'tokio::sync::Mutex around adapters is modelled as always available. PagedResults is C16 (not claimed).', '§6 C10'),
    'C12': ('Expiry logic. op_call and SearchStream::next run from MIR with the timer stub answering either way: on expiry exactly one scrub for the operation\'s own ID and a Timeout error, on a reply the reply; every item wait of a timed stream is under a fresh timer; the driver\'s scrub branch (one iteration, arbitrary pre-state) removes exactly that ID from both routing tables and the in-use set; a later response under that ID is delivered to nobody.',
            TRUST + 'NOT decided: that the timer fires at its deadline (tokio timer wheel).', '§6 C12'),
    'C13': ('One-step release facts for every release site of the driver (result delivery with live or dead receiver, scrub, Abandon incl. the abandoned ID, search Done / dead item receiver) from an arbitrary pre-state: exactly the right ID leaves the in-use set and the routing tables, nothing else; client side: expiry and early finish() send the scrub for the stream\'s own ID, a stream read to Done sends none.',
            TRUST + 'Histories are compositions of these steps; they are not enumerated beyond the scripted client-side lanes.', '§6 C13'),
    'C18': ('from_url_with_settings / new_tcp / new_unix run from the coroutine MIR of the default-feature (TLS) build up to the first socket call, with url::Url::{scheme,host_str,port} and the pre-opened stream kind as nondeterministic stubs: for every scheme (ldap, ldaps, ldapi, any other), host (absent, empty, 1..3 (4) symbolic host characters incl. percent sequences), port (absent or any u16), stream kind, timeout and StartTLS flag z3 proves the documented error for unknown schemes / empty or port-bearing ldapi paths / mismatched streams, the TCP target (URL host or localhost, URL port or 389/636), the percent-decoded Unix path, that a connection timeout wraps the whole new_tcp future, and that no path panics.',
            TRUST + 'Pre-connect part only: socket establishment, StartTLS and the TLS handshake are outside (C17 is not applicable). Stub contract of the url crate accessors is validated on every replay.', '§6 C18'),
    'C14': ('Each of the 22 LdapConn / EntryStream methods runs from MIR with Runtime::block_on modelled as "drive to completion" and the same-named Ldap / SearchStream method as an intercepted, uninterpreted callee resolving to Ok(token) or Err(token), with the handle\'s closed flag symbolic: exactly one forwarded call, to the right method, on the wrapper\'s own handle/stream, arguments unchanged, returned value exactly the callee\'s; with_controls/with_timeout/with_search_options/last_id/is_closed compared with the async versions on an identical handle. Counterexamples are reproduced as a behavioural difference between both APIs against the same scripted in-process peer.',
            TRUST + 'The tokio runtime is trusted; what the async methods themselves do is C02/C10. Connection establishment is C18; gssapi/ntlm binds are not built.', '§6 C14'),
    'C02': ('Envelope: LdapCodec::encode -> build_tag -> encode_into from MIR for every message ID in 1..2^31-1, None/Some(0..2 (3)) controls with symbolic OID/criticality/value, operation bodies incl. lengths across the 127/128 boundary, against a reference RFC 4511 encoder. Builders: each of the 11 operations (15 argument shapes: every Mod variant, present/absent newSuperior and extended value, empty-value Add refused, search options) is executed from its async-fn coroutine MIR up to Ldap::op_call; the captured (LdapOp, request) goes through the real codec and z3 proves the bytes equal the reference PDU of the symbolic arguments (SET OF as multiset). op_call up to the reply wait: queued ID = freshly allocated ID, exactly the handle\'s controls travel, controls and timeout cleared afterwards, timer armed iff a timeout was set; search options consumed; Ldap::clone() carries no pending modifiers.',
            TRUST + 'Lane B2: tokio channel/timer calls are environment stubs (send records, waits answer Pending). Strings <=2 (3) bytes, <=2 attributes/modifications/controls; filters in SearchRequest from one template (grammar: C08).', '§6 C02'),
    'C19': ('Every request control and extended request of the library (17 kinds incl. critical wrappers, all 8 PasswordModify combinations, both SyncRequest modes) is built by the real From impls / construct_exop from MIR with symbolic sizes, cookies, identifiers and filter characters, and compared by z3 with the OID, criticality and BER value written here from the defining RFCs; every response parser (PagedResults, SyncState, SyncDone, the 4 SyncInfo alternatives with DEFAULTs, ReadEntry, WhoAmI, StartTxn, PasswordModify) is run on reference encodings with symbolic contents and short/81/82/84 length forms; control lists of 0..2 (3) controls go through build_tag and parse_controls.',
            TRUST + 'Cookies and identifiers <= 2 (4) bytes; filters in Assertion/MatchedValues from 2 templates (the grammar itself is C08).', '§6 C19'),
    'C20': ('get_url_params runs from MIR with url::Url::path()/query() replaced by symbolic strings (every string over the alphabet the url crate can return, path <=3 (4) and query <=6 (9) characters, plus structured queries with 0..2 attributes, scope word, filter and 0..2 extensions with symbolic criticality, letter case and values); a reference RFC 4516 splitter / percent-decoder written for the check gives the expected components, defaults and the three error classes; z3 discharges each comparison. Counterexamples are replayed through the real url crate.',
            TRUST + "Stub contract for url::Url accessors (alphabet; path empty or starting with '/'), validated on every replay. Strings beyond the bounds are outside the claim.", '§6 C20'),
    'C08': ('The whole nom grammar of src/filter.rs is executed from MIR. Raw lane: every byte string of <=5 (7) bytes over all 256 values is compared with a forking reference RFC 4515 parser/compiler written for the check (accepted iff in the grammar + documented extensions; BER equals the encoding of the syntax tree; no path panics). Grammar lane: 23 symbolic AST shapes (all item kinds, substring patterns, every extensible-match combination, and/or/not nesting) printed with a symbolic raw-or-\\hh choice per value byte and symbolic hex case.',
            TRUST + 'nom combinator glue is modelled from nom 7.1.3 source. Strings longer than the bounds and ASTs outside the 23 shapes are outside the claim; a dot-less numeric OID is tolerated.', '§6 C08'),
    'C09': ('ldap_escape, dn_escape and ldap_unescape run from MIR over every well-formed UTF-8 string of <=3 (5) bytes (full byte range incl. NUL, metacharacters, multi-byte sequences): z3 proves the escaped text reads back to v under reference RFC 4515 / RFC 4514 value readers written for the check, unchanged-when-nothing-to-escape, ldap_unescape(ldap_escape(v)) == v, and that (a=<esc>) / (a=x*<esc>*y) parse (real grammar, from MIR) to the same structure with value v.',
            TRUST + 'Longer strings are outside the bound.', '§6 C09'),
    'C05': ('One inductive step of the real Ldap::next_msgid from an arbitrary pre-state: the counter ranges over all of 0..=2^31-1 and the in-use set is an unconstrained z3 array; on every path z3 proves the issued ID is in 1..2^31-1, not in use, inserted (and nothing else changes), becomes the counter, and is the first free successor in cyclic order MAX->1, with no overflow panic at the wrap-around point.',
            TRUST + 'Fewer than 5 (17) consecutive occupied successors (cut recorded); atomicity across handles/threads rests on the mutex guard being held over the whole body, checked syntactically on the MIR; that release sites only remove their own ID belongs to C13/C01.', '§6 C05'),
    'C15': ('Every feasible path of the real SearchEntry::construct over well-formed entries with <=2 attributes x <=2 (3) values of 0..3 (4) fully symbolic bytes: z3 proves DN equality, exactly-one-map membership, text map iff all values valid UTF-8 with values in order, binary map = multiset of values. Every valid/invalid UTF-8 pattern in every order is covered because validity is left to the solver.',
            TRUST + 'Attribute descriptions within an entry are distinct and valid UTF-8; HashMap modelled as association list with symbolic key equality.', '§6 C15'),
    'C03': ('A symbolic response model (result code 0..2^31-1 in 1..4 octets, message ID, any response tag, UTF-8 matched DN / text, referral list, SASL credentials, extended name/value, controls with OID/criticality/value; short and 81/82/84 long length forms) is reference-encoded and pushed through the real decode_inner -> parse_controls -> LdapResultExt::from; z3 proves every returned field equal to the model on every path. success()/non_error()/equal() of all four wrapper types are decided for all 2^32 result codes.',
            TRUST + 'Strings <=2 (3) bytes, <=1 (2) referrals and controls; quick tier ties the length form of all inner levels. Result codes longer than 4 content octets are outside RFC 4511.', '§6 C03'),
    'C06': ('Every feasible path of the real decode_inner/parse_tag MIR over every byte string of <=6 (8) bytes is checked against an independent header reader (need-more iff the first TLV is incomplete and then nothing is consumed; exact consumption), and for each well-formed message skeleton with all content bytes symbolic: every proper prefix says need-more, and the item is identical whatever bytes follow. z3 discharges each obligation; counterexamples are replayed natively.',
            TRUST + "tokio_util::codec::Framed's read loop is trusted. Frames beyond the stated shapes are outside the bound.", '§6 C06'),
    'C07': ('Kani/CBMC decides the INTEGER/ENUMERATED, length-octet, identifier-octet and BOOLEAN kernels for every value of their machine types (unwinding assertions on); the MIR executor explores every path of encode_into/parse_tag/into_structure over all trees of depth<=2 (3), width<=2, payload<=2 bytes with symbolic classes, tag numbers, contents and trailers, payloads at the 127/128/255/256/65535/65536 boundaries, and every raw byte string of <=5 (7) bytes against an independent definite-length decoder.',
            TRUST + "Kani's allocation model. Outside: tag numbers > 30, trees/payloads beyond the bounds, indefinite lengths.", '§6 C07'),
    'C11': ('Decoder part: every byte string of <=6 (8) bytes and every single (double) byte mutation, over all 256 (65536) values at every position, of 10 valid message skeletons goes through the real decode_inner -> parse_controls (and the SearchResultDone conversion the driver performs itself); on every path: no panic, and a frame whose announced bytes have arrived is delivered or rejected. Recursion depth is decided on 600 (1500) nested TLVs and replayed with 400000 levels in a child process.',
            TRUST + 'The driver reaction (error propagation to pending operations, unknown operation for a search ID) needs the async lane and is not part of this check yet.', '§6 C11'),
}

NOT_YET = 'check under construction in this session (see DESIGN.md §6); not yet claimed'
NA = {
    'C17': 'TLS handshake, certificate verification (native-tls/OpenSSL FFI) and socket I/O have no MIR in the two crates and no contract strong enough to stub; solver-based checking of the real code cannot reach them (DESIGN.md §7)',
}
ALL = ['C%02d' % i for i in range(1, 21)]


def main():
    checks = []
    for pid in sorted(CLAIMED):
        text, note, ref = CLAIMED[pid]
        checks.append({'property_id': pid, 'quick_cmd': f'./check {pid} --tier quick', 'thorough_cmd': f'./check {pid} --tier thorough',
                       'evidence_file': f'/verif/evidence/{pid}.json', 'replay_cmd_template': './check --replay {path}', 'engine': 'mirsym' + ('+kani' if pid in ('C07', 'C09') else ''),
                       'level_claimed': {'category': 'model_checking', 'text': text, 'design_ref': 'DESIGN.md ' + ref}, 'level_note': note, 'technique': TECH + ('; Kani/CBMC (SAT) on the compiled crate for the scalar kernels' if pid in ('C07', 'C09') else '')})
    na = []
    for pid in ALL:
        if pid in CLAIMED:
            continue
        na.append({'property_id': pid, 'reason': NA.get(pid, NOT_YET)})
    hooks_commits = os.popen("git -C /repo log --format=%h --grep='^verif hooks'").read().split()
    m = {'version': 1, 'setup_cmd': './setup.sh',
         'hooks': {'guard': 'cargo feature `verif` (crates ldap3 and lber)', 'enable': 'path dependencies with features=["verif"] from /verif/kani and /verif/replay; the MIR lanes read private functions from the MIR dump and need no hook',
                   'baseline_off_cmd': 'cd /repo && cargo test --workspace --no-fail-fast --offline', 'source_commits': hooks_commits[::-1], 'add_only': True},
         'engines': [
             {'name': 'mirsym', 'path': '/verif/mirsym', 'serves_properties': sorted(CLAIMED), 'kind_free_text': "symbolic executor for rustc MIR (nightly -Zunpretty=mir of /repo's working tree, regenerated per source hash) with decision-replay forking; z3 decides every symbolic branch and every property obligation"},
             {'name': 'kani', 'path': '/verif/kani', 'serves_properties': [p for p in ('C07', 'C09') if p in CLAIMED], 'kind_free_text': 'Kani 0.68 / CBMC proof harnesses over the compiled crates (path deps on /repo)'},
             {'name': 'replay', 'path': '/verif/replay', 'serves_properties': sorted(CLAIMED), 'kind_free_text': 'native binary running the real code on one JSON case; every solver counterexample is reproduced here (dev and release) before it is reported'}],
         'checks': checks,
         'notes': 'Exit codes: 0 held (possibly KNOWN-FINDING lines) / 1 VIOLATION (natively replayed, not in known_findings.txt) / 2 inconclusive (unsupported construct, timeout, self-test disagreement, unreproduced counterexample). See DESIGN.md.',
         'not_applicable': na}
    json.dump(m, open(os.path.join(HERE, 'MANIFEST.json'), 'w'), indent=1)
    try:
        import jsonschema
        jsonschema.validate(m, json.load(open('/root/.vp/MANIFEST.schema.json')))
        print('MANIFEST.json valid;', len(checks), 'checks,', len(na), 'not applicable')
    except ImportError:
        print('written (jsonschema not available to validate)')


if __name__ == '__main__':
    main()
