#!/bin/bash
# Regenerate /verif/evidence/*.json from quick-tier runs on /repo's current (clean) working tree and
# validate each file against the evidence schema.  Refuses to run on a dirty /repo.
cd "$(dirname "$0")/.."
if [ -n "$(git -C /repo status --porcelain)" ]; then echo "/repo is not clean"; exit 3; fi
rc=0
for p in $(python3 -c "import json;print(' '.join(c['property_id'] for c in json.load(open('MANIFEST.json'))['checks']))"); do
  rm -f evidence/$p.json
  out=$(./check $p --tier ${TIER:-quick} 2>&1); e=$?
  echo "$p exit=$e $(echo "$out" | grep -E '^\[C' | tail -1)"
  echo "$out" | grep -E "VIOLATION|INCONCLUSIVE|KNOWN-FINDING" | cut -c1-300
  [ $e -ne 0 ] && rc=1
  python3-vt - <<P || rc=1
import json, jsonschema
jsonschema.validate(json.load(open('evidence/$p.json')), json.load(open('/root/.vp/EVIDENCE.schema.json')))
P
done
exit $rc
