"""Path-forking symbolic executor over compiled MIR (decision-replay forking, z3 for every
symbolic branch).  See DESIGN.md section 3."""
import os
import re
import sys
import time
import copy as _copy
import z3
from .values import *
from .mir import (Program, SrcInfo, compile_fn, strip_generics, strip_angle, split_top, last_seg, parse_place, norm_type, trait_args)

sys.setrecursionlimit(20000)

_CONST_CACHE = {}
TRUE = z3.BoolVal(True)
FALSE = z3.BoolVal(False)
def _is_true(c):
    return c.eq(TRUE)


def _is_false(c):
    return c.eq(FALSE)


def mask(bits):
    return (1 << bits) - 1


def to_signed(v, bits):
    return v - (1 << bits) if v >> (bits - 1) else v


class Call:
    """description of a call site handed to models"""
    __slots__ = ('callee', 'key', 'self_ty', 'fn', 'generics')

    def __init__(self, callee, key, self_ty, fn):
        self.callee = callee; self.key = key; self.self_ty = self_ty; self.fn = fn


class Ctx:
    def __init__(self, prog, models, dev=True):
        self.prog = prog
        self.models = models          # key -> fn   (exact keys), plus list of (regex, fn)
        self.dev = dev                # dev profile: overflow asserts panic
        self.script = []; self.di = 0; self.pc = []; self.todo = []
        self.solver = z3.Solver()
        self.solver.set('timeout', 60000)
        self.sol_n = 0            # number of pc entries currently asserted in the solver (one push level each)
        self.sol_pc = []          # the entries themselves (shared prefix with the previous path is kept)
        self.stats = {'paths': 0, 'queries': 0, 'solver_s': 0.0, 'steps': 0, 'maxdepth': 0, 'decisions': 0,
                      'calls_interp': 0, 'calls_model': 0, 'infeasible': 0}
        self.depth = 0
        self.cur_fn = None
        self.path_steps = 0; self.path_step_cap = 40_000_000          # MIR statements per execution path
        self.xcheck_every = int(os.environ.get('VERIF_XCHECK', '0') or 0)   # cross-check every n-th property query with cvc5
        self.tyargs = []              # stack of explicit type arguments of the calls being executed
        self.intercept = {}           # key or callee prefix -> python fn(ctx, call, *args)  (harness hooks)
        self.stop_at = ()             # lane B2: callee prefixes raising StopAtCall
        self.resolve_cache = {}
        self.models_used = set()
        self.fns_used = {}
        self.cuts = []
        self.nfresh = 0
        self.max_depth = 400
        self.step_cap = 4_000_000_000      # cumulative MIR steps per worker; the lane time budget is the effective limit
        self.trace = None
        self.path_notes = []
        self.depth_probe = None
        self.env = {}                 # lane B3: environment stubs for awaited foreign futures

    # ------------------------------------------------------------------ decisions
    def _flush(self):
        """bring the solver's assertion stack in line with self.pc (one push level per pc entry)"""
        s = self.solver
        n = self.sol_n
        pc = self.pc
        while n < len(pc):
            s.push(); s.add(pc[n]); n += 1
        self.sol_n = n

    def check(self, extra):
        self._flush()
        s = self.solver
        s.push()
        for e in extra:
            s.add(e)
        t = time.time(); r = s.check(); self.stats['solver_s'] += time.time() - t; self.stats['queries'] += 1
        s.pop()
        if r == z3.unknown:
            raise Unsupported('solver unknown: ' + s.reason_unknown())
        return r == z3.sat

    def _add_pc(self, c):
        pc = self.pc
        n = len(pc)
        pc.append(c)
        if n < self.sol_n:
            # the solver still holds the previous path's entry at this position
            if not (n < len(self.sol_pc) and self.sol_pc[n].eq(c)):
                self.solver.pop(self.sol_n - n); self.sol_n = n
                del self.sol_pc[n:]
                self.sol_pc.append(c)
        else:
            if n < len(self.sol_pc):
                del self.sol_pc[n:]
            self.sol_pc.append(c)

    def decide(self, conds):
        """conds: exhaustive list of z3 Bools; returns index taken on this path"""
        simp = [c if isinstance(c, bool) else z3.simplify(c) for c in conds]
        live = []
        for i, c in enumerate(simp):
            if c is True or (c is not False and c.eq(TRUE)):
                return i
            if not (c is False or c.eq(FALSE)):
                live.append(i)
        if not live:
            raise Infeasible()
        self.stats['decisions'] += 1
        if self.di < len(self.script):
            k = self.script[self.di]; self.di += 1; self._add_pc(simp[k]); return k
        feas = [i for i in live if self.check([simp[i]])]
        if not feas:
            raise Infeasible()
        for j in feas[1:]:
            self.todo.append(self.script[:self.di] + [j])
        k = feas[0]; self.script.append(k); self.di += 1; self._add_pc(simp[k]); return k

    def branch(self, c):
        if c is True: return True
        if c is False: return False
        return self.decide([c, z3.Not(c)]) == 0

    def fresh(self, name, bits):
        self.nfresh += 1
        return z3.BitVec(f'{name}!{self.nfresh}', bits)

    def fresh_bool(self, name):
        self.nfresh += 1
        return z3.Bool(f'{name}!{self.nfresh}')

    def assume(self, c):
        c = z3.simplify(c)
        if _is_true(c): return
        if _is_false(c): raise Infeasible()
        self._add_pc(c)
        if not self.check([]):
            raise Infeasible()

    def choose_int(self, e, lo, hi):
        """concretise bit-vector e to an int in [lo,hi]; None = 'greater than hi' (unsigned)"""
        v = conc(e)
        if v is not None:
            return v if lo <= v <= hi else None
        esz = e.size()
        conds = [e == bv(k, esz) for k in range(lo, hi + 1)] + [z3.UGT(e, bv(hi, esz))]
        if lo > 0:
            conds.append(z3.ULT(e, z3.BitVecVal(lo, e.size())))
        k = self.decide(conds)
        return lo + k if k <= hi - lo else None

    def choose(self, n, name='choice'):
        """nondeterministic choice among n alternatives (environment stub)"""
        v = self.fresh(name, 8)
        conds = [v == k for k in range(n)]
        self.assume(z3.ULT(v, n))
        return self.decide(conds)

    # ------------------------------------------------------------------ constants
    def const(self, tok, fname):
        r = _CONST_CACHE.get(tok)
        if r is not None:
            return r
        m = re.match(r'^const (-?\d+)_(\w+)$', tok)
        if m:
            r = z3.BitVecVal(int(m.group(1)), INT[m.group(2)][0])
            _CONST_CACHE[tok] = r
            return r
        if tok == 'const true': return TRUE
        if tok == 'const false': return FALSE
        if tok == 'const ()': return UNIT
        mb = re.match(r'^const (b?)"(.*)"$', tok, re.S)
        if mb:
            raw = mb.group(2)
            bs = _unescape_rust(raw)
            vals = [z3.BitVecVal(b, 8) for b in bs]
            return SliceV(vals) if mb.group(1) else StrV(vals)
        mb = re.match(r"^const '(.*)'$", tok, re.S)
        if mb:
            ch = mb.group(1)
            if ch.startswith('\\'):
                ch = {'\\n': '\n', '\\t': '\t', '\\0': '\0', "\\'": "'", '\\\\': '\\', '\\r': '\r'}.get(ch) or chr(int(re.match(r'\\u\{(\w+)\}', ch).group(1), 16))
            return z3.BitVecVal(ord(ch), 32)
        m = re.match(r'^const (?:std::|core::)?(i8|i16|i32|i64|isize|u8|u16|u32|u64|usize)::(MIN|MAX)$', tok)
        if m:
            b, sg = INT[m.group(1)]
            if sg:
                return z3.BitVecVal(-(1 << (b - 1)) if m.group(2) == 'MIN' else (1 << (b - 1)) - 1, b)
            return z3.BitVecVal(0 if m.group(2) == 'MIN' else (1 << b) - 1, b)
        body = tok[6:]
        if 'promoted[' in body:
            fn = self.prog.find_promoted(fname, body)
            return self.run_compiled(fn, [])
        bs = strip_generics(body)
        for k, tok2 in self.prog.consts.items():
            if bs == k or bs.endswith('::' + k) or k.endswith('::' + bs):
                return self.const(tok2, fname)
        # an associated / function-local constant is defined under `<impl at file:line>` but referenced through the
        # type's name (conn::<impl at ..>::turn::{closure#0}::BRANCHES  vs  conn::LdapConnAsync::turn::{closure#0}::BRANCHES)
        for k, tok2 in self.prog.consts.items():
            if '<impl at ' in k:
                pat = '^' + re.sub(r'<impl\\ at\\ [^>]*>', r'[^:]+', re.escape(k)) + '$'
                if re.match(pat, bs):
                    return self.const(tok2, fname)
        # named constant with a MIR body (const X: T = {...})
        for k, fn in self.prog.promoted.items():
            if 'promoted[' not in k and (k == bs or bs.endswith('::' + k) or k.endswith('::' + last_seg(bs)) and last_seg(k) == last_seg(bs)):
                return self.run_compiled(fn, [])
        mm = re.match(r'^\{?(.*?)\}?$', body)
        if body.startswith('{') or re.match(r'^[\w:<>, &\[\]\'()]+$', body) and ('::' in body or body[0].islower()):
            return FnItem(body)
        return Opaque('const', tok)

    # ------------------------------------------------------------------ places
    def read_place(self, fr, pl):
        b, pr = pl
        v = fr[b]
        for x in pr:
            k = x[0]
            if k == 'deref':
                v = deref(v)
                if isinstance(v, BoxV) and (len(x) < 2 or x[1] != 'ref'): v = v[0]
            elif k == 'field':
                v = deref(v)
                if isinstance(v, BoxV):
                    pass
                elif isinstance(v, tuple) and v[0] == 'corovar':
                    v = v[1].var[(v[2], x[1])]
                elif isinstance(v, EnumV): v = v.fields[x[1]]
                elif isinstance(v, StructV): v = v.nth(x[1])
                elif isinstance(v, (Tup, list)): v = v[x[1]]
                elif isinstance(v, ClosureV): v = v.caps[x[1]]
                elif isinstance(v, CoroV): v = v.up[x[1]]
                elif isinstance(v, BoxUninitV): v = v
                elif isinstance(v, (VecV, StrV, MapV, SetV, ZSet, BytesMutV, Opaque)) or hasattr(v, 'transparent'):
                    v = v          # newtype wrappers modelled transparently (Box, Arc, Pin, guards)
                else:
                    raise Unsupported(f'field {x[1]} of {type(v).__name__} in {self.cur_fn}')
            elif k == 'downcast':
                v = deref(v)
                if isinstance(v, CoroV):
                    v = ('corovar', v, x[1])
                elif isinstance(v, EnumV):
                    if v.variant != x[1]:
                        raise Unsupported(f'downcast {x[1]} on {v.ty}::{v.variant} in {self.cur_fn}')
                else:
                    raise Unsupported(f'downcast on {type(v).__name__}')
            elif k == 'cindex':
                v = deref(v); i = x[1]
                seq = v.items() if isinstance(v, SliceV) else (v.items if isinstance(v, VecV) else v)
                v = seq[len(seq) - i] if x[2] else seq[i]
            elif k == 'index':
                v = deref(v)
                iv = fr[x[1]]; i = conc(iv)
                seq = v.items() if isinstance(v, SliceV) else (v.items if isinstance(v, VecV) else (v.b if isinstance(v, StrV) else v))
                if i is None:
                    i = self.choose_int(iv, 0, len(seq) - 1)
                    if i is None:
                        raise Unsupported('symbolic index out of range reached a raw index projection')
                v = seq[i]
            elif k == 'subslice':
                v = deref(v)
                seq = v if isinstance(v, SliceV) else SliceV(v.items if isinstance(v, VecV) else v)
                v = seq.sub(x[1], len(seq) - x[2] if x[3] else x[2])
        return v

    def lvalue(self, fr, pl):
        """-> LRef for a place (container resolved now)"""
        b, pr = pl
        if not pr:
            return LRef(lambda: fr[b], lambda val: fr.__setitem__(b, val))
        if pr[-1][0] == 'deref':
            inner = self.read_place(fr, (b, pr[:-1]))
            if isinstance(inner, LRef):
                return inner
            if isinstance(inner, BoxV) and (len(pr[-1]) < 2 or pr[-1][1] != 'ref'):
                return LRef(lambda: inner[0], lambda val: inner.__setitem__(0, val))
            # transparent reference to a compound value: aliasing object, whole-value store unsupported
            holder = {'v': inner}

            def setter(val, inner=inner):
                if isinstance(inner, EnumV) and isinstance(val, EnumV):
                    inner.ty = val.ty; inner.variant = val.variant; inner.fields = val.fields
                elif isinstance(inner, StructV) and isinstance(val, StructV):
                    inner.fields = val.fields
                elif isinstance(inner, VecV) and isinstance(val, VecV):
                    inner.items = val.items
                elif isinstance(inner, StrV) and isinstance(val, StrV):
                    inner.b = val.b
                elif isinstance(inner, Tup) and isinstance(val, Tup):
                    inner[:] = val
                elif isinstance(inner, Cell):
                    inner.v = val
                elif isinstance(inner, BytesMutV) and isinstance(val, BytesMutV):
                    inner.items = list(val.items); inner.lo = val.lo
                else:
                    raise Unsupported(f'store through transparent reference to {type(inner).__name__}')
            return LRef(lambda: inner, setter)
        parent = (b, pr[:-1]); last = pr[-1]
        return LRef(lambda: self.read_place(fr, (b, pr)), lambda val: self._store_proj(fr, parent, last, val))

    def _store_proj(self, fr, parent, last, val):
        c = self.read_place(fr, parent)
        c = deref(c) if not (isinstance(c, tuple)) else c
        k = last[0]
        if k == 'field':
            i = last[1]
            if isinstance(c, tuple) and c[0] == 'corovar': c[1].var[(c[2], i)] = val
            elif isinstance(c, CoroV): c.up[i] = val
            elif isinstance(c, EnumV): c.fields[i] = val
            elif isinstance(c, StructV): c.set_nth(i, val)
            elif isinstance(c, ClosureV): c.caps[i] = val
            elif isinstance(c, BoxUninitV): c.value = val
            elif isinstance(c, (Tup, list)): c[i] = val
            else: raise Unsupported(f'store field of {type(c).__name__}')
        elif k in ('index', 'cindex'):
            i = conc(fr[last[1]]) if k == 'index' else last[1]
            if isinstance(c, SliceV): c.buf[c.lo + i] = val
            elif isinstance(c, VecV): c.items[i] = val
            elif isinstance(c, BoxUninitV): c.value = val
            else: c[i] = val
        elif k == 'downcast':
            raise Unsupported('store to downcast')
        else:
            raise Unsupported('store proj ' + k)

    def write_place(self, fr, pl, val):
        b, pr = pl
        if not pr:
            fr[b] = val; return
        if pr[-1][0] == 'deref':
            inner = self.read_place(fr, (b, pr[:-1]))
            if isinstance(inner, LRef):
                inner.set(val); return
            if isinstance(inner, BoxUninitV):
                inner.value = val; return
            if isinstance(inner, BoxV) and (len(pr[-1]) < 2 or pr[-1][1] != 'ref'):
                inner[0] = val; return
            self.lvalue(fr, pl).set(val); return
        # a BoxUninit whose contents are written field-wise / as array
        self._store_proj(fr, (b, pr[:-1]), pr[-1], val)

    # ------------------------------------------------------------------ operands
    def operand(self, fn, fr, o):
        k = o[0]
        if k == 'move':
            return self.read_place(fr, o[1])
        if k == 'copy':
            v = self.read_place(fr, o[1])
            if o[2]:
                return v
            if isinstance(v, (Tup, EnumV, StructV, ArrV)):
                return copy_val(v)
            return v
        if k == 'const':
            return self.const(o[1], fn.name)
        if k == 'unit':
            return UNIT
        if k == 'fnitem':
            return FnItem(o[1])
        raise Unsupported('operand ' + repr(o))

    # ------------------------------------------------------------------ rvalues
    def binop(self, op, a, b, ty, fn):
        if z3.is_bool(a) or isinstance(a, bool):
            if op == 'Eq': return a == b
            if op == 'Ne': return a != b
            if op == 'BitAnd': return z3.And(a, b)
            if op == 'BitOr': return z3.Or(a, b)
            if op == 'BitXor': return z3.Xor(a, b)
            raise Unsupported('bool binop ' + op)
        if not z3.is_bv(a):
            if isinstance(a, EnumV) and isinstance(b, EnumV) and op in ('Eq', 'Ne'):
                r = a.variant == b.variant
                return z3.BoolVal(r if op == 'Eq' else not r)
            raise Unsupported(f'binop {op} on {type(a).__name__}')
        bits = a.size()
        signed = INT.get(ty, (bits, False))[1]
        if op in ('Shl', 'Shr', 'ShlUnchecked', 'ShrUnchecked') and b.size() != bits:
            if isinstance(b, z3.BitVecNumRef):
                b = bv(b.as_long() & mask(bits), bits)
            else:
                b = z3.ZeroExt(bits - b.size(), b) if b.size() < bits else z3.Extract(bits - 1, 0, b)
        ca = a.as_long() if isinstance(a, z3.BitVecNumRef) else None
        cb = b.as_long() if isinstance(b, z3.BitVecNumRef) else None
        if ca is not None and cb is not None:
            return self._binop_conc(op, ca, cb, bits, signed, fn)
        if op in ('Add', 'AddUnchecked'): return a + b
        if op in ('Sub', 'SubUnchecked'): return a - b
        if op in ('Mul', 'MulUnchecked'): return a * b
        if op == 'BitAnd': return a & b
        if op == 'BitOr': return a | b
        if op == 'BitXor': return a ^ b
        if op in ('Shl', 'ShlUnchecked'): return a << b
        if op in ('Shr', 'ShrUnchecked'): return (a >> b) if signed else z3.LShR(a, b)
        if op == 'Lt': return (a < b) if signed else z3.ULT(a, b)
        if op == 'Le': return (a <= b) if signed else z3.ULE(a, b)
        if op == 'Gt': return (a > b) if signed else z3.UGT(a, b)
        if op == 'Ge': return (a >= b) if signed else z3.UGE(a, b)
        if op == 'Eq': return a == b
        if op == 'Ne': return a != b
        if op in ('Div', 'Rem'):
            zero = b == z3.BitVecVal(0, bits)
            if self.branch(zero):
                raise PanicExc(fn.name, 'arith', 'division by zero')
            if op == 'Div': return (a / b) if signed else z3.UDiv(a, b)
            return z3.SRem(a, b) if signed else z3.URem(a, b)
        if op == 'AddWithOverflow':
            ok = z3.And(z3.BVAddNoOverflow(a, b, signed), z3.BVAddNoUnderflow(a, b)) if signed else z3.BVAddNoOverflow(a, b, False)
            return Tup([a + b, z3.Not(ok)])
        if op == 'SubWithOverflow':
            ok = z3.And(z3.BVSubNoOverflow(a, b), z3.BVSubNoUnderflow(a, b, True)) if signed else z3.BVSubNoUnderflow(a, b, False)
            return Tup([a - b, z3.Not(ok)])
        if op == 'MulWithOverflow':
            ok = z3.And(z3.BVMulNoOverflow(a, b, signed), z3.BVMulNoUnderflow(a, b)) if signed else z3.BVMulNoOverflow(a, b, False)
            return Tup([a * b, z3.Not(ok)])
        if op == 'Cmp':
            lt = (a < b) if signed else z3.ULT(a, b)
            k = self.decide([lt, a == b, z3.And(z3.Not(lt), a != b)])
            return EnumV('Ordering', ['Less', 'Equal', 'Greater'][k])
        raise Unsupported('binop ' + op)

    def _binop_conc(self, op, ca, cb, bits, signed, fn):
        M = mask(bits)
        sa = to_signed(ca, bits) if signed else ca
        sb = to_signed(cb, bits) if signed else cb
        lo, hi = (-(1 << (bits - 1)), (1 << (bits - 1)) - 1) if signed else (0, M)

        def mk(v): return bv(v & M, bits)
        if op in ('Add', 'AddUnchecked'): return mk(sa + sb)
        if op in ('Sub', 'SubUnchecked'): return mk(sa - sb)
        if op in ('Mul', 'MulUnchecked'): return mk(sa * sb)
        if op == 'BitAnd': return mk(ca & cb)
        if op == 'BitOr': return mk(ca | cb)
        if op == 'BitXor': return mk(ca ^ cb)
        if op in ('Shl', 'ShlUnchecked'): return mk(ca << (cb % bits)) if cb < bits else mk(0)
        if op in ('Shr', 'ShrUnchecked'): return mk((sa if signed else ca) >> min(cb, bits - 1 if signed else bits + 1)) if cb < 4096 else mk(0)
        if op == 'Lt': return TRUE if sa < sb else FALSE
        if op == 'Le': return TRUE if sa <= sb else FALSE
        if op == 'Gt': return TRUE if sa > sb else FALSE
        if op == 'Ge': return TRUE if sa >= sb else FALSE
        if op == 'Eq': return TRUE if ca == cb else FALSE
        if op == 'Ne': return TRUE if ca != cb else FALSE
        if op in ('Div', 'Rem'):
            if sb == 0: raise PanicExc(fn.name, 'arith', 'division by zero')
            q = abs(sa) // abs(sb); q = -q if (sa < 0) != (sb < 0) else q
            return mk(q) if op == 'Div' else mk(sa - q * sb)
        if op == 'AddWithOverflow':
            r = sa + sb; return Tup([mk(r), z3.BoolVal(not (lo <= r <= hi))])
        if op == 'SubWithOverflow':
            r = sa - sb; return Tup([mk(r), z3.BoolVal(not (lo <= r <= hi))])
        if op == 'MulWithOverflow':
            r = sa * sb; return Tup([mk(r), z3.BoolVal(not (lo <= r <= hi))])
        if op == 'Cmp':
            return EnumV('Ordering', 'Less' if sa < sb else ('Equal' if sa == sb else 'Greater'))
        raise Unsupported('binop ' + op)

    def rvalue(self, fn, fr, rv):
        k = rv[0]
        if k == 'use':
            return self.operand(fn, fr, rv[1])
        if k == 'binop':
            a = self.operand(fn, fr, rv[2]); b = self.operand(fn, fr, rv[3])
            return self.binop(rv[1], a, b, rv[4], fn)
        if k == 'ref':
            pl = rv[2]
            if rv[1] == 'mut':
                # reborrow of an existing &mut: keep the same l-value
                if pl[1] and pl[1][-1][0] == 'deref':
                    inner = self.read_place(fr, (pl[0], pl[1][:-1]))
                    if isinstance(inner, LRef):
                        return inner
                return self.lvalue(fr, pl)
            v = self.read_place(fr, pl)
            return v
        if k == 'tuple':
            return Tup([self.operand(fn, fr, x) for x in rv[1]])
        if k == 'adt':
            return self.make_adt(fn, fr, rv)
        if k == 'discr':
            v = deref(self.read_place(fr, rv[1]))
            if isinstance(v, CoroV):
                return z3.BitVecVal(v.state, 32)
            if isinstance(v, EnumV):
                return z3.BitVecVal(self.prog.src.discr_of(v.ty, v.variant), 64)
            if hasattr(v, 'discr'):
                return v.discr(self)
            raise Unsupported(f'discriminant of {type(v).__name__} in {fn.name}')
        if k == 'cast':
            return self.cast(fn, fr, rv)
        if k == 'unop':
            a = self.operand(fn, fr, rv[2])
            if rv[1] == 'Not':
                if z3.is_bool(a): return z3.simplify(z3.Not(a))
                c = conc(a) if is_conc(a) else None
                return z3.BitVecVal(~c & mask(a.size()), a.size()) if c is not None else ~a
            if rv[1] == 'Neg':
                c = a.as_long() if is_conc(a) else None
                return z3.BitVecVal(-c & mask(a.size()), a.size()) if c is not None else -a
            if rv[1] == 'PtrMetadata':
                a = deref(a)
                return z3.BitVecVal(len(a) if isinstance(a, (SliceV, list)) else len(items_of(a)), 64)
        if k == 'len':
            v = deref(self.read_place(fr, rv[1]))
            return z3.BitVecVal(len(v) if isinstance(v, (SliceV, list)) else len(items_of(v)), 64)
        if k == 'array':
            return ArrV([self.operand(fn, fr, x) for x in rv[1]])
        if k == 'repeat':
            v = self.operand(fn, fr, rv[1]); return ArrV([copy_val(v) for _ in range(rv[2])])
        if k == 'closure':
            cv = ClosureV(rv[1], [self.rvalue(fn, fr, c) for c in rv[2]])
            msp = re.search(r'closure@([^}]*)\}', rv[1])
            cands = self.prog.closures_all.get(msp.group(1), []) if msp else []
            if len(cands) > 1:
                # closures from a macro expansion share their span: the body is the one defined inside the current function
                mine = [f for f in cands if f.name.startswith(fn.name + '::{closure#')]
                if len(mine) == 1: cv.body_fn = mine[0]
                elif len(mine) != 1: raise Unsupported('ambiguous closure body for span ' + msp.group(1)[:80])
            return cv
        if k == 'coroutine':
            body = self.prog.closures.get(rv[1]) or self.prog.closures.get(rv[1].split(' (#')[0])
            if body is None:
                # `async fn`: the resume function is <fn>::{closure#0}
                body = self.prog.fns.get(fn.name + '::{closure#0}')
            if body is None:
                raise Unsupported('coroutine body for span ' + rv[1])
            return CoroV(body.name, [self.operand(fn, fr, u) for u in rv[2]])
        raise Unsupported('rvalue ' + k)

    def make_adt(self, fn, fr, rv):
        path, fs, kind = rv[1], rv[2], rv[3]
        vals = [(n, self.operand(fn, fr, o)) for n, o in fs]
        segs = strip_angle(path).split('::')
        last = segs[-1]
        src = self.prog.src
        if len(segs) >= 2 and segs[-2] in src.enums and last in src.enums[segs[-2]]:
            return EnumV(segs[-2], last, [v for _, v in vals])
        if len(segs) == 1 and last not in src.structs:
            # a variant printed without its enum (imported with `use Enum::*` or a type-relative path)
            cands = [ty for ty, vs in src.enums.items() if last in vs and ty not in SrcInfo.STD_ENUMS]
            if len(cands) == 1:
                return EnumV(cands[0], last, [v for _, v in vals])
        if last in src.enums and kind != 'named' and not vals and len(segs) >= 1 and last not in src.structs:
            raise Unsupported('enum path without variant ' + path)
        if kind == 'named':
            return StructV(last, vals)
        if kind == 'tuple':
            if last == 'Box' and len(vals) == 1:
                return BoxV([vals[0][1]])
            if last in ('Pin', 'Wrapping', 'ManuallyDrop', 'Arc', 'Rc') and len(vals) == 1:
                return Tup([vals[0][1]])
            return StructV(last, vals)
        # unit: a unit struct or a function item
        if last in src.structs or (last[:1].isupper() and '<' not in last and not path.startswith('<')):
            return StructV(last, [])
        return FnItem(path)

    def cast(self, fn, fr, rv):
        _, kind, o, sty, dty = rv
        a = self.operand(fn, fr, o)
        if kind == 'IntToInt':
            dty = dty.strip()
            if dty not in INT:
                raise Unsupported('cast to ' + dty)
            db, _ = INT[dty]
            if z3.is_bool(a):
                c = z3.simplify(a)
                if _is_true(c): return z3.BitVecVal(1, db)
                if _is_false(c): return z3.BitVecVal(0, db)
                return z3.If(a, z3.BitVecVal(1, db), z3.BitVecVal(0, db))
            if isinstance(a, EnumV):
                return z3.BitVecVal(self.prog.src.discr_of(a.ty, a.variant), db)
            sb = a.size(); ss = INT.get(sty.strip(), (sb, False))[1]
            if is_conc(a):
                v = a.as_long()
                if ss: v = to_signed(v, sb)
                return z3.BitVecVal(v & mask(db), db)
            if db == sb: return a
            if db < sb: return z3.Extract(db - 1, 0, a)
            return z3.SignExt(db - sb, a) if ss else z3.ZeroExt(db - sb, a)
        if kind == 'PointerCoercion' or kind in ('Subtype', 'Transmute', 'PtrToPtr', 'FnPtrToPtr'):
            v = a
            if isinstance(deref(v), ArrV) and ('[' in dty and ';' not in dty):
                return SliceV(deref(v))
            return v
        raise Unsupported('cast kind ' + kind)

    # ------------------------------------------------------------------ calls
    def resolve(self, callee):
        """-> ('mir', Fn) | ('model', pyfn, Call) | ('dyn', key) ; cached per callee string"""
        r = self.resolve_cache.get(callee)
        if r is not None:
            return r
        r = self._resolve(callee)
        self.resolve_cache[callee] = r
        return r

    def _resolve(self, callee):
        prog = self.prog
        c0 = callee
        c = strip_generics(callee)
        # closure / fn-pointer invocations
        if re.match(r'^<.* as Fn(Mut|Once)?<.*>>::call(_mut|_once)?$', c0, re.S):
            return ('callvalue',)
        if c in prog.fns:
            return ('mir', prog.fns[c])
        key, self_ty, trait = normalize_callee(c)
        call = Call(callee, key, self_ty, None)
        # crate functions first
        for cand in self._mir_candidates(c, key, self_ty, trait):
            if cand in prog.alias:
                return ('mir', prog.alias[cand])
        m = self.models.lookup(key, c)
        if m is not None:
            return ('model', m, call)
        if trait is not None:
            return ('dyn', key, self_ty, trait, call)
        return ('none', call)

    def _mir_candidates(self, c, key, self_ty, trait):
        out = []
        if trait is not None:
            meth = key.split('::', 1)[1]
            t = norm_type(self_ty)
            m = re.match(r'^<.* as (.*)>::[^:]*$', c, re.S)
            targs = []
            # the trait reference (with its arguments) sits between the top-level ' as ' and the closing '>'
            inner = c[1:c.rindex('>::')]
            d = 0; pos = None
            for j, ch in enumerate(inner):
                if ch in '<([{' and not (ch == '<' and j > 0 and inner[j - 1] == '-'): d += 1
                elif ch in '>)]}' and not (ch == '>' and j > 0 and inner[j - 1] in '-='): d -= 1
                elif d == 0 and inner.startswith(' as ', j): pos = j
            if pos is not None:
                targs = trait_args(inner[pos + 4:])
            if targs:
                out.append(f'<{t} as {trait}<{", ".join(targs)}>>::{meth}')
                if trait == 'Into' and meth == 'into':
                    out.append(f'<{targs[0]} as From<{t}>>::from')
            out.append(f'<{t} as {trait}>::{meth}')
        else:
            p = re.sub(r'^(?:[a-z_0-9]+::)+(?=[A-Za-z_<{])', '', c)
            out.append(c); out.append(p)
            segs = strip_angle(c).split('::')
            if len(segs) >= 2:
                out.append('::'.join(segs[-2:]))
            if len(segs) < 2 or not segs[-2][:1].isupper():
                # a bare function name only for free functions (module paths), never for `Type::method` of a foreign type
                out.append(segs[-1])
        return out

    def call(self, fn, callee, args):
        stop = self.stop_at
        if stop:
            for p in stop:
                if callee.startswith(p) or strip_generics(callee).endswith(p):
                    raise StopAtCall(callee, args)
        r = self.resolve(callee)
        k = r[0]
        if self.intercept:
            call = r[-1] if k in ('model', 'dyn', 'none') else None
            key = call.key if call else (r[1].name if k == 'mir' else None)
            h = self.intercept.get(key) or (self.intercept.get(last_seg_of(key)) if key else None)
            if h is not None:
                return h(self, call or Call(callee, key, None, None), *args)
        if k == 'mir':
            # explicit type arguments at the call site (f::<X>) bind the callee's type parameters: remembered for
            # static trait calls on a bare parameter (<T as Trait>::m) inside the callee
            ta = turbofish_args(callee)
            if ta:
                self.tyargs.append(ta)
                try: return self.run_compiled(r[1], args)
                finally: self.tyargs.pop()
            return self.run_compiled(r[1], args)
        if k == 'callvalue':
            return self.call_value(args[0], list(args[1]))
        if k == 'model':
            self.stats['calls_model'] += 1
            self.models_used.add(r[2].key)
            return r[1](self, r[2], *args)
        if k == 'dyn':
            return self.dyn_call(r, args)
        raise Unsupported('no MIR and no model for callee ' + callee[:200])

    def dyn_call(self, r, args):
        """trait method on a generic / dyn receiver: dispatch on the runtime type of the first argument"""
        _, key, self_ty, trait, call = r
        meth = key.split('::', 1)[1]
        if args:
            a0 = deref(args[0])
            tyname = getattr(a0, 'ty', None)
            if tyname is None and isinstance(a0, Tup) and len(a0) == 1:
                tyname = getattr(deref(a0[0]), 'ty', None)
            if tyname is None:
                tyname = {'VecV': 'Vec', 'StrV': 'String', 'MapV': 'HashMap', 'SetV': 'HashSet'}.get(type(a0).__name__)
            if tyname:
                cand = f'<{tyname} as {trait}>::{meth}'
                if cand in self.prog.alias:
                    return self.run_compiled(self.prog.alias[cand], args)
                pat = re.compile(r'^<' + re.escape(tyname) + r' as ' + re.escape(trait) + r'(<.*>)?>::' + re.escape(meth) + r'$')
                hits = [f for k2, f in self.prog.alias.items() if pat.match(k2)]
                if len(hits) == 1:
                    return self.run_compiled(hits[0], args)
                m = self.models.lookup(f'{tyname}:{key}', '')
                if m is not None:
                    return m(self, call, *args)
            # blanket impl over a type parameter (impl<T: Bound> Trait for T)
            pat = re.compile(r'^<[A-Z][A-Za-z]? as ' + re.escape(trait) + r'(<.*>)?>::' + re.escape(meth) + r'$')
            hits = [f for k2, f in self.prog.alias.items() if pat.match(k2)]
            if len(hits) == 1:
                return self.run_compiled(hits[0], args)
        if trait == 'Into' and args:
            # <S as Into<T>>::into -> <T as From<S>>::from, T named in the callee
            mm = re.search(r' as (?:std::convert::)?Into<(.*)>>::into$', strip_generics(call.callee), re.S)
            if mm:
                tt = last_seg(strip_angle(mm.group(1)).strip())
                a0 = deref(args[0]); tyname = getattr(a0, 'ty', None)
                for k2, f2 in self.prog.alias.items():
                    if k2 == f'<{tt} as From>::from' and tyname:
                        # several From impls for the same target: pick by the argument type in the signature
                        pass
                cands = [f2 for k2, f2 in self.prog.fns.items() if False]
                hit = self.find_from_impl(tt, tyname)
                if hit is not None:
                    return self.run_compiled(hit, args)
        if re.match(r'^[A-Z][A-Za-z0-9]?$', self_ty.strip()):
            for ta in reversed(self.tyargs):
                hits = [self.prog.alias[f'<{last_seg(strip_angle(t).strip())} as {trait}>::{meth}'] for t in ta if f'<{last_seg(strip_angle(t).strip())} as {trait}>::{meth}' in self.prog.alias]
                if len(hits) == 1:
                    return self.run_compiled(hits[0], args)
        raise Unsupported(f'dynamic dispatch {key} on {type(deref(args[0])).__name__ if args else "()"} ({call.callee[:120]})')

    def find_from_impl(self, target, argty, argty_full=None):
        """locate `impl From<argty> for target` among MIR bodies by signature"""
        def norm_full(t):
            t = re.sub(r"'\w+\s*", '', t)
            t = re.sub(r'\b(?:[a-z_0-9]+::)+', '', t)
            return t.replace(' ', '')
        hits = []; exact = []
        for name, f in self.prog.fns.items():
            if name.split('#')[0].endswith('::from') and '<impl at' in name:
                sig = f.sig
                m = re.match(r'^fn .*?\(_1: (.*?)\) -> (.*?) \{$', sig, re.S)
                if not m: continue
                at = last_seg(strip_angle(m.group(1)).strip()); rt = last_seg(strip_angle(m.group(2)).strip())
                if rt == target and (argty is None or at == argty):
                    hits.append(f)
                    if argty_full is not None and norm_full(m.group(1)) == norm_full(argty_full):
                        exact.append(f)
        if len(exact) == 1:
            return exact[0]
        return hits[0] if len(hits) == 1 else None

    def call_value(self, f, args):
        f = deref(f)
        if isinstance(f, PyFn):
            return f.f(*args)
        if isinstance(f, FnItem):
            return self.call(None, f.name, args)
        if isinstance(f, ClosureV):
            return self.run_closure(f, args)
        if isinstance(f, Tup) and len(f) == 1:
            return self.call_value(f[0], args)
        raise Unsupported('call_value ' + repr(type(f)))

    def run_closure(self, clo, args):
        m = re.search(r'closure@([^}]*)\}', clo.name)
        fn = getattr(clo, 'body_fn', None) or (self.prog.closures.get(m.group(1)) if m else None)
        if fn is None:
            raise Unsupported('closure body ' + clo.name[:100])
        # closures called through Fn* traits take (self, (args,)) untupled in MIR: fn(_1: closure, _2: a, ...)
        return self.run_compiled(fn, [clo] + list(args))

    def callf(self, f, args):
        return self.call_value(f, args)

    # ------------------------------------------------------------------ interpreter loop
    def run_fn(self, name, args):
        fn = self.prog.fns.get(name) or self.prog.alias.get(name)
        if fn is None:
            raise Unsupported('no MIR for ' + name)
        return self.run_compiled(fn, args)

    def run_compiled(self, fn, args):
        code = compile_fn(fn)
        fr = {}
        for i, a in enumerate(args):
            fr[f'_{i + 1}'] = a
        bb = 'bb0'
        prev = self.cur_fn
        self.cur_fn = fn.name
        self.depth += 1
        if self.depth > self.stats['maxdepth']:
            self.stats['maxdepth'] = self.depth
        if self.depth > self.max_depth:
            raise Unsupported('recursion depth cap')
        self.stats['calls_interp'] += 1
        fu = self.fns_used
        if fn.name not in fu:
            fu[fn.name] = fn.nlines
        if self.depth_probe is not None:
            self.depth_probe(fn, self.depth)
        steps = 0
        try:
            while True:
                nxt = None
                for st in code[bb]:
                    steps += 1
                    k = st[0]
                    if k == 'assign':
                        try:
                            self.write_place(fr, st[1], self.rvalue(fn, fr, st[2]))
                        except (z3.Z3Exception, TypeError, AttributeError, KeyError, IndexError) as e:
                            raise Unsupported(f'{fn.name}: {st!r:.200} :: {type(e).__name__} {e}')
                    elif k == 'call':
                        a = [self.operand(fn, fr, x) for x in st[3]]
                        callee = st[2]
                        if is_panic_callee(callee):
                            raise PanicExc(fn.name, panic_kind(callee), panic_msg(a))
                        try:
                            r = self.call(fn, callee, a)
                        except (z3.Z3Exception, TypeError, AttributeError, KeyError, IndexError) as e:
                            import traceback
                            tb = traceback.extract_tb(e.__traceback__)[-1]
                            raise Unsupported(f'{fn.name}: call {callee[:120]} :: {type(e).__name__} {e} @{tb.filename.split("/")[-1]}:{tb.lineno}')
                        self.cur_fn = fn.name
                        if st[4] is None:
                            raise Unsupported('diverging call returned: ' + callee[:100])
                        self.write_place(fr, st[1], r)
                        nxt = st[4]; break
                    elif k == 'switch':
                        v = self.operand(fn, fr, st[1])
                        nxt = self.switch(v, st[2]); break
                    elif k == 'goto':
                        nxt = st[1]; break
                    elif k == 'assert':
                        v = self.operand(fn, fr, st[2])
                        ok = z3.Not(v) if st[1] else v
                        if 'overflow' in st[3] and not self.dev:
                            nxt = st[4]; break
                        if not self.branch(z3.simplify(ok) if not isinstance(ok, bool) else ok):
                            raise PanicExc(fn.name, 'assert', st[3][:60])
                        nxt = st[4]; break
                    elif k == 'return':
                        return fr.get('_0', UNIT)
                    elif k == 'drop':
                        v = self.read_place(fr, st[1]) if st[1][0] in fr else None
                        if v is not None:
                            self.drop_value(v)
                        nxt = st[2]; break
                    elif k == 'setdiscr':
                        v = deref(self.read_place(fr, st[1]))
                        if isinstance(v, CoroV):
                            v.state = st[2]
                        elif isinstance(v, EnumV):
                            names = self.prog.src.enums[v.ty]
                            for nm in names:
                                if self.prog.src.discr_of(v.ty, nm) == st[2]:
                                    v.variant = nm
                        else:
                            raise Unsupported('setdiscr on ' + type(v).__name__)
                    elif k == 'yield':
                        raise Unsupported('raw yield')
                    elif k == 'unreachable':
                        raise Unsupported('reached `unreachable` in ' + fn.name)
                    elif k == 'resume':
                        raise Unsupported('reached `resume` in ' + fn.name)
                    else:
                        raise Unsupported('stmt ' + k)
                if nxt is None:
                    raise Unsupported('fell off block ' + bb + ' in ' + fn.name)
                bb = nxt
                self.stats['steps'] += steps; self.path_steps += steps; steps = 0
                if self.stats['steps'] > self.step_cap:
                    raise Unsupported('step cap')
                if self.path_steps > self.path_step_cap:
                    raise Unsupported('one execution path exceeds the per-path step budget (non-terminating loop in the code under test or in an environment stub?)')
        finally:
            self.depth -= 1
            self.cur_fn = prev
            self.stats['steps'] += steps

    def switch(self, v, arms):
        if isinstance(v, z3.BitVecNumRef):
            c = v.as_long()
            other = None
            for val, t in arms:
                if val is None: other = t
                elif val & mask(v.size()) == c: return t
            return other
        if z3.is_bool(v):
            s = z3.simplify(v)
            if _is_true(s) or _is_false(s):
                want = 1 if _is_true(s) else 0
                other = None
                for val, t in arms:
                    if val is None: other = t
                    elif (val != 0) == bool(want): return t
                return other
            conds = []; tg = []
            for val, t in arms:
                if val is None:
                    c = z3.And(*[z3.Not(x) for x in conds]) if conds else TRUE
                else:
                    c = z3.Not(v) if val == 0 else v
                conds.append(c); tg.append(t)
            return tg[self.decide(conds)]
        conds = []; tg = []
        vsz = v.size()
        for val, t in arms:
            if val is None:
                c = z3.And(*[z3.Not(x) for x in conds]) if conds else TRUE
            else:
                c = v == bv(val & mask(vsz), vsz)
            conds.append(c); tg.append(t)
        return tg[self.decide(conds)]

    def drop_value(self, v):
        v = deref(v) if not isinstance(v, LRef) else None
        if v is None:
            return
        h = getattr(v, 'on_drop', None)
        if h is not None:
            h(self)
            return
        if isinstance(v, (StructV,)):
            for x in v.fields.values():
                if hasattr(x, 'on_drop') or isinstance(x, (StructV, EnumV, Tup, VecV, MapV)):
                    self.drop_value(x)
        elif isinstance(v, (EnumV,)):
            for x in v.fields:
                if hasattr(x, 'on_drop') or isinstance(x, (StructV, EnumV, Tup, VecV, MapV)):
                    self.drop_value(x)
        elif isinstance(v, (Tup, ArrV)):
            for x in v:
                if hasattr(x, 'on_drop') or isinstance(x, (StructV, EnumV, Tup, VecV, MapV)):
                    self.drop_value(x)
        elif isinstance(v, VecV):
            for x in v.items:
                if hasattr(x, 'on_drop') or isinstance(x, (StructV, EnumV, Tup, VecV, MapV)):
                    self.drop_value(x)
        elif isinstance(v, MapV):
            for _, x in v.items:
                if hasattr(x, 'on_drop') or isinstance(x, (StructV, EnumV, Tup, VecV, MapV)):
                    self.drop_value(x)

    # ------------------------------------------------------------------ exploration
    def explore(self, run, on_path, max_paths=200000, time_cap=None):
        """run(): executes one path from the entry (fresh inputs each time) and returns its value.
        on_path(outcome, pc): outcome = ('ret', v) | ('panic', PanicExc) | ('stop', StopAtCall)"""
        if self.todo is None or not getattr(self, 'keep_todo', False):
            self.todo = [[]]
        self.solver.reset(); self.solver.set('timeout', 60000); self.sol_n = 0; self.sol_pc = []
        t0 = time.time()
        while self.todo:
            self.script = self.todo.pop(); self.di = 0; self.pc = []; self.path_steps = 0
            self.nfresh = 0
            self.depth = 0; self.cur_fn = None; self.path_notes = []
            try:
                out = ('ret', run())
            except PanicExc as e:
                out = ('panic', e)
            except StopAtCall as e:
                out = ('stop', e)
            except Infeasible:
                self.stats['infeasible'] += 1
                continue
            self.stats['paths'] += 1
            on_path(out, list(self.pc))
            if self.stats['paths'] >= max_paths:
                raise Unsupported('path cap reached')
            if time_cap and time.time() - t0 > time_cap:
                raise Unsupported('time cap reached during exploration')

    def query(self, pc, negated_property):
        """is pc /\\ negated_property satisfiable?  returns model or None"""
        s = z3.Solver(); s.set('timeout', 120000)
        for c in pc: s.add(c)
        s.add(negated_property)
        t = time.time(); r = s.check(); self.stats['solver_s'] += time.time() - t; self.stats['queries'] += 1
        if r == z3.unknown:
            raise Unsupported('solver unknown on property query')
        self.xcheck(s, r)
        return s.model() if r == z3.sat else None

    def xcheck(self, s, r):
        """second opinion: every VERIF_XCHECK-th property query is re-decided by cvc5 on the SMT-LIB2 dump of the
        same assertions; a disagreement makes the run inconclusive (then the encoding or a solver is wrong)"""
        every = self.xcheck_every
        if not every: return
        self._xn = getattr(self, '_xn', 0) + 1
        if self._xn % every: return
        import subprocess, tempfile
        txt = '(set-logic ALL)\n' + s.to_smt2()
        with tempfile.NamedTemporaryFile('w', suffix='.smt2', dir=os.environ.get('VERIF_WORK', '/verif/.work'), delete=False) as f:
            f.write(txt); fn = f.name
        try:
            p = subprocess.run(['cvc5', '--lang', 'smt2', '--tlimit=20000', fn], stdout=subprocess.PIPE, stderr=subprocess.PIPE, text=True, timeout=40)
            ans = p.stdout.strip().split('\n')[0] if p.stdout.strip() else ''
        except Exception:
            ans = 'timeout'
        finally:
            try: os.unlink(fn)
            except OSError: pass
        want = 'sat' if r == z3.sat else 'unsat'
        if ans in ('sat', 'unsat'):
            if ans != want:
                raise Unsupported(f'solver disagreement: z3 says {want}, cvc5 says {ans}')
            self.stats['xcheck_agree'] = self.stats.get('xcheck_agree', 0) + 1
        else:
            self.stats['xcheck_noanswer'] = self.stats.get('xcheck_noanswer', 0) + 1

    def model_of(self, pc):
        s = z3.Solver()
        for c in pc: s.add(c)
        r = s.check(); self.stats['queries'] += 1
        if r != z3.sat:
            raise Unsupported('path condition not sat at model extraction')
        return s.model()


def last_seg_of(key):
    return key.split('::')[-1] if key else key


def copy_val(v):
    if isinstance(v, BoxV): return v
    if isinstance(v, Tup): return Tup([copy_val(x) for x in v])
    if isinstance(v, ArrV): return ArrV([copy_val(x) for x in v])
    if isinstance(v, EnumV): return EnumV(v.ty, v.variant, [copy_val(x) for x in v.fields])
    if isinstance(v, StructV): return StructV(v.ty, [(k, copy_val(x)) for k, x in v.fields.items()])
    return v


def clone_val(v):
    """deep structural clone (Clone::clone on owned data)"""
    v = deref(v)
    if isinstance(v, BoxV): return BoxV([clone_val(x) for x in v])
    if isinstance(v, Tup): return Tup([clone_val(x) for x in v])
    if isinstance(v, ArrV): return ArrV([clone_val(x) for x in v])
    if isinstance(v, EnumV): return EnumV(v.ty, v.variant, [clone_val(x) for x in v.fields])
    if isinstance(v, StructV): return StructV(v.ty, [(k, clone_val(x)) for k, x in v.fields.items()])
    if isinstance(v, VecV): return VecV([clone_val(x) for x in v.items])
    if isinstance(v, StrV): return StrV(list(v.b))
    if isinstance(v, SliceV): return v
    if isinstance(v, MapV): return MapV([(clone_val(k), clone_val(x)) for k, x in v.items])
    if isinstance(v, SetV): return SetV([clone_val(k) for k in v.items])
    if hasattr(v, 'clone'): return v.clone()
    return v


PANIC_RE = re.compile(r'^(?:core|std)::(?:panicking|rt|option|result|slice::index|str)::(panic_fmt|panic|panic_display|panic_explicit|panic_nounwind|unreachable_display|begin_panic|assert_failed|panic_const::\w+|unwrap_failed|expect_failed|slice_\w+_fail|slice_error_fail)(::<.*>)?$', re.S)


def is_panic_callee(c):
    return c in ('panic', 'panic_fmt', 'panic_display', 'panic_explicit', 'begin_panic', 'unreachable_display', 'panic_nounwind') or c.startswith(('core::panicking::', 'std::rt::begin_panic', 'std::rt::panic', 'core::panicking', 'std::panicking::begin_panic')) or bool(PANIC_RE.match(c))


def panic_kind(c):
    c = strip_generics(c)
    return c.split('::')[-1]


def panic_msg(args):
    out = []
    for a in args:
        a = deref(a)
        if isinstance(a, StrV):
            out.append(str_text(a))
        elif isinstance(a, Opaque) and a.t == 'fmtargs':
            if isinstance(a.info, list):
                out.append(''.join(x[1].decode('utf-8', 'replace') if x[0] == 'lit' else '{}' for x in a.info))
            else:
                out.append(str(a.info))
    return '|'.join(out)[:80]


def str_text(s):
    bs = []
    for b in s.b:
        c = conc(b)
        bs.append(c if c is not None else 63)
    return bytes(bs).decode('utf-8', 'replace')


def _unescape_rust(raw):
    out = bytearray(); i = 0; n = len(raw)
    while i < n:
        ch = raw[i]
        if ch == '\\' and i + 1 < n:
            c2 = raw[i + 1]
            if c2 == 'n': out.append(10); i += 2
            elif c2 == 'r': out.append(13); i += 2
            elif c2 == 't': out.append(9); i += 2
            elif c2 == '0': out.append(0); i += 2
            elif c2 == '\\': out.append(92); i += 2
            elif c2 == '"': out.append(34); i += 2
            elif c2 == "'": out.append(39); i += 2
            elif c2 == 'x': out.append(int(raw[i + 2:i + 4], 16)); i += 4
            elif c2 == 'u':
                j = raw.index('}', i); out.extend(chr(int(raw[i + 3:j], 16)).encode()); i = j + 1
            else: out.append(ord(c2)); i += 2
        else:
            out.extend(ch.encode()); i += 1
    return bytes(out)


def turbofish_args(c):
    """type arguments of a trailing `::<A, B>` in a callee path (none for `<T as Trait>::m` forms without one)"""
    c = c.strip()
    if not c.endswith('>'): return None
    d = 0
    for i in range(len(c) - 1, -1, -1):
        ch = c[i]
        if ch == '>' and not (i > 0 and c[i - 1] in '-='): d += 1
        elif ch == '<' and not (i > 0 and c[i - 1] == '-'):
            d -= 1
            if d == 0: break
    if i < 2 or c[i - 2:i] != '::' : return None
    return [x.strip() for x in split_top(c[i + 1:-1], ',') if x.strip()]


def normalize_callee(c):
    """-> (key, self_ty, trait)   key = 'Trait::method' or 'Type::method' or a free-function path"""
    c = c.strip()
    if c.startswith('<'):
        # <T as Trait<..>>::method   (T may contain nested <>)
        d = 0
        for i, ch in enumerate(c):
            if ch == '<' and not (i > 0 and c[i - 1] == '-'): d += 1
            elif ch == '>' and not (i > 0 and c[i - 1] in '-='):
                d -= 1
                if d == 0: break
        inner = c[1:i]; rest = c[i + 1:]
        meth = rest.lstrip(':')
        # split inner at top-level ' as '
        d = 0; pos = None; j = 0
        while j < len(inner):
            ch = inner[j]
            if ch in '<([{' and not (ch == '<' and j > 0 and inner[j - 1] == '-'): d += 1
            elif ch in '>)]}' and not (ch == '>' and j > 0 and inner[j - 1] in '-='): d -= 1
            elif d == 0 and inner.startswith(' as ', j): pos = j
            j += 1
        if pos is None:
            return (last_seg(strip_angle(inner)) + '::' + meth, inner, None)
        ty = inner[:pos]; tr = inner[pos + 4:]
        trn = last_seg(strip_angle(tr).strip())
        return (trn + '::' + meth, ty, trn)
    m = re.match(r'^(?:\w+::)*?(slice|str|num|char|array|ptr|f64|f32)(?:::\w+)?::<impl (.*?)>::(.*)$', c, re.S)
    if m:
        t = m.group(2).strip()
        if t.startswith('['): t = 'slice'
        return (f'{strip_angle(t)}::{m.group(3)}', t, None)
    segs = strip_angle(c).split('::')
    if len(segs) >= 2 and (segs[-2][:1].isupper() or segs[-2] in ('str', 'slice', 'u8', 'char')):
        return (segs[-2] + '::' + segs[-1], segs[-2], None)
    return (strip_angle(c), None, None)
