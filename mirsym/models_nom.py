"""nom 7.1.3 combinator glue, transcribed from nom's source.  Combinators take function values
and call back into the interpreter, so the grammars of lber/src/parse.rs and src/filter.rs are
executed from their MIR; only the glue below is modelled."""
import re
import z3
from .values import *
from .models import M, reg, regp, as_slice, seq_of, B64, BOOL, TRUE, FALSE
from .mir import split_top, strip_generics


_BITS_OB = {}


def Incomplete(n):
    return Err(EnumV('Err', 'Incomplete', [EnumV('Needed', 'Size', [n])]))


def CErr(inp, kind, variant='Error'):
    return Err(EnumV('Err', variant, [StructV('Error', {'input': inp, 'code': Opaque('ErrorKind', kind)})]))


def is_soft(r):
    return r.variant == 'Err' and r.fields[0].variant == 'Error'


# ------------------------------------------------------------------ streaming (lber)

@reg('nom::number::streaming::be_u8', 'number::streaming::be_u8', 'streaming::be_u8')
def m_be_u8(c, call, i):
    i = as_slice(i)
    if len(i) == 0: return Incomplete(B64(1))
    return Ok(Tup([i.sub(1), i.at(0)]))


@reg('nom::bytes::streaming::take', 'bytes::streaming::take')
def m_bytes_take(c, call, count):
    if count.size() != 64: count = z3.ZeroExt(64 - count.size(), count)

    def f(i):
        i = as_slice(i)
        k = c.choose_int(count, 0, len(i))
        if k is None: return Incomplete(count - B64(len(i)))
        return Ok(Tup([i.sub(k), i.sub(0, k)]))
    return PyFn(f, 'take')


@reg('nom::streaming::take', 'nom::bits::streaming::take', 'bits::streaming::take')
def m_bits_take(c, call, count):
    n = conc(count)
    ob = _BITS_OB.get(call.callee)
    if ob is None:
        oty = split_top(re.search(r'take::<(.*)>$', call.callee, re.S).group(1))[1].strip()
        ob = _BITS_OB[call.callee] = INT[oty][0]

    def f(inp):
        i, off = inp; i = as_slice(i); off = conc(off)
        if n == 0: return Ok(Tup([Tup([i, B64(off)]), z3.BitVecVal(0, ob)]))
        cnt = (n + off) // 8
        if len(i) * 8 < n + off: return Incomplete(B64(n))
        acc = z3.BitVecVal(0, ob); offset = off; rem = n; end = 0
        for j in range(min(cnt + 1, len(i))):
            if rem == 0: break
            byte = i.at(j)
            val = byte if offset == 0 else z3.LShR((byte << offset), offset)
            valw = z3.ZeroExt(ob - 8, val) if ob > 8 else val
            if rem < 8 - offset:
                acc = acc + z3.LShR(valw, 8 - offset - rem); end = rem + offset; break
            else:
                acc = acc + (valw << (rem - (8 - offset))); rem -= 8 - offset; offset = 0
        return Ok(Tup([Tup([i.sub(cnt), B64(end)]), z3.simplify(acc)]))
    return PyFn(f, 'bits::take')


@reg('map_opt', 'nom::combinator::map_opt', 'combinator::map_opt')
def m_map_opt(c, call, parser, fn):
    def f(i):
        r = c.callf(parser, [i])
        if r.variant == 'Err': return r
        i2, o1 = r.fields[0]; o2 = c.callf(fn, [o1])
        if o2.variant == 'Some': return Ok(Tup([i2, o2.fields[0]]))
        return CErr(i, 'MapOpt')
    return PyFn(f, 'map_opt')


@reg('tuple', 'nom::sequence::tuple', 'sequence::tuple')
def m_tuple(c, call, parsers):
    def f(i):
        outs = []
        for p in parsers:
            r = c.callf(p, [i])
            if r.variant == 'Err': return r
            i, o = r.fields[0]; outs.append(o)
        return Ok(Tup([i, Tup(outs)]))
    return PyFn(f, 'tuple')


@reg('bits', 'nom::bits', 'nom::bits::bits')
def m_bits(c, call, parser):
    def f(i):
        r = c.callf(parser, [Tup([i, B64(0)])])
        if r.variant == 'Ok':
            (rest, off), res = r.fields[0]; off = conc(off)
            idx = off // 8 + 1 if off % 8 else off // 8
            return Ok(Tup([as_slice(rest).sub(idx), res]))
        e = r.fields[0]
        if e.variant == 'Incomplete':
            nd = e.fields[0]
            if nd.variant == 'Size':
                return Err(EnumV('Err', 'Incomplete', [EnumV('Needed', 'Size', [z3.UDiv(nd.fields[0], B64(8)) + 1])]))
            return Err(EnumV('Err', 'Incomplete', [nd]))
        inner = e.fields[0]
        return Err(EnumV('Err', e.variant, [StructV('Error', {'input': inner.fields['input'][0], 'code': inner.fields['code']})]))
    return PyFn(f, 'bits')


# ------------------------------------------------------------------ complete (filter.rs)

@reg('nom::bytes::complete::tag', 'bytes::complete::tag', 'complete::tag')
def m_ctag(c, call, t):
    t = as_slice(t)

    def f(i):
        i = as_slice(i); n = len(t)
        if len(i) < n:
            # complete::tag compares the common prefix first (Compare::compare -> Error either way)
            return CErr(i, 'Tag')
        eq = z3.And(*[i.at(j) == t.at(j) for j in range(n)]) if n else TRUE
        if c.branch(z3.simplify(eq)): return Ok(Tup([i.sub(n), i.sub(0, n)]))
        return CErr(i, 'Tag')
    return PyFn(f, 'tag')


@reg('alt', 'nom::branch::alt', 'branch::alt')
def m_alt(c, call, ps):
    def f(i):
        last = None
        for p in ps:
            r = c.callf(p, [i])
            if not is_soft(r): return r
            last = r
        return last
    return PyFn(f, 'alt')


@reg('delimited', 'nom::sequence::delimited', 'sequence::delimited')
def m_delimited(c, call, a, b, d):
    def f(i):
        r = c.callf(a, [i])
        if r.variant == 'Err': return r
        r2 = c.callf(b, [r.fields[0][0]])
        if r2.variant == 'Err': return r2
        r3 = c.callf(d, [r2.fields[0][0]])
        if r3.variant == 'Err': return r3
        return Ok(Tup([r3.fields[0][0], r2.fields[0][1]]))
    return PyFn(f, 'delimited')


@reg('preceded', 'nom::sequence::preceded', 'sequence::preceded')
def m_preceded(c, call, a, b):
    def f(i):
        r = c.callf(a, [i])
        if r.variant == 'Err': return r
        return c.callf(b, [r.fields[0][0]])
    return PyFn(f, 'preceded')


@reg('terminated', 'nom::sequence::terminated')
def m_terminated(c, call, a, b):
    def f(i):
        r = c.callf(a, [i])
        if r.variant == 'Err': return r
        r2 = c.callf(b, [r.fields[0][0]])
        if r2.variant == 'Err': return r2
        return Ok(Tup([r2.fields[0][0], r.fields[0][1]]))
    return PyFn(f, 'terminated')


@reg('opt', 'nom::combinator::opt', 'combinator::opt')
def m_opt(c, call, p):
    def f(i):
        r = c.callf(p, [i])
        if r.variant == 'Ok': return Ok(Tup([r.fields[0][0], Some(r.fields[0][1])]))
        if is_soft(r): return Ok(Tup([i, NONE()]))
        return r
    return PyFn(f, 'opt')


@reg('map', 'nom::combinator::map', 'combinator::map')
def m_map(c, call, p, g):
    def f(i):
        r = c.callf(p, [i])
        if r.variant == 'Err': return r
        return Ok(Tup([r.fields[0][0], c.callf(g, [r.fields[0][1]])]))
    return PyFn(f, 'map')


@reg('map_res', 'nom::combinator::map_res', 'combinator::map_res')
def m_map_res(c, call, p, g):
    def f(i):
        r = c.callf(p, [i])
        if r.variant == 'Err': return r
        o = c.callf(g, [r.fields[0][1]])
        if o.variant == 'Ok': return Ok(Tup([r.fields[0][0], o.fields[0]]))
        return CErr(i, 'MapRes')
    return PyFn(f, 'map_res')


def _many(c, p, i, min1):
    acc = VecV(); first = True
    while True:
        r = c.callf(p, [i])
        if is_soft(r):
            if min1 and first: return CErr(i, 'Many1')
            return Ok(Tup([i, acc]))
        if r.variant == 'Err': return r
        i1, o = r.fields[0]
        if len(as_slice(i1)) == len(as_slice(i)): return CErr(i, 'Many0' if not min1 else 'Many1')
        i = i1; acc.items.append(o); first = False


@reg('many0', 'nom::multi::many0', 'multi::many0')
def m_many0(c, call, p): return PyFn(lambda i: _many(c, p, i, False), 'many0')
@reg('many1', 'nom::multi::many1', 'multi::many1')
def m_many1(c, call, p): return PyFn(lambda i: _many(c, p, i, True), 'many1')


@reg('fold_many0', 'nom::multi::fold_many0', 'multi::fold_many0')
def m_fold_many0(c, call, p, init, g):
    def f(i):
        acc = c.callf(init, [])
        while True:
            r = c.callf(p, [i])
            if is_soft(r): return Ok(Tup([i, acc]))
            if r.variant == 'Err': return r
            i1, o = r.fields[0]
            if len(as_slice(i1)) == len(as_slice(i)): return CErr(i, 'Many0')
            i = i1; acc = c.callf(g, [acc, o])
    return PyFn(f, 'fold_many0')


@reg('verify', 'nom::combinator::verify', 'combinator::verify')
def m_verify(c, call, p, pred):
    def f(i):
        r = c.callf(p, [i])
        if r.variant == 'Err': return r
        ok = c.callf(pred, [r.fields[0][1]])
        if c.branch(ok): return r
        return CErr(i, 'Verify')
    return PyFn(f, 'verify')


@reg('recognize', 'nom::combinator::recognize', 'combinator::recognize')
def m_recognize(c, call, p):
    def f(i):
        r = c.callf(p, [i])
        if r.variant == 'Err': return r
        rest = as_slice(r.fields[0][0]); ii = as_slice(i)
        return Ok(Tup([rest, ii.sub(0, len(ii) - len(rest))]))
    return PyFn(f, 'recognize')


@reg('nom::number::complete::be_u8', 'number::complete::be_u8', 'complete::be_u8', 'be_u8')
def m_cbe_u8(c, call, i):
    i = as_slice(i)
    if len(i) == 0: return CErr(i, 'Eof')
    return Ok(Tup([i.sub(1), i.at(0)]))


def tw(c, pred, i, min1, kind):
    i = as_slice(i); k = 0
    while k < len(i):
        ok = c.callf(pred, [i.at(k)])
        if not c.branch(ok): break
        k += 1
    if min1 and k == 0: return CErr(i, kind)
    return Ok(Tup([i.sub(k), i.sub(0, k)]))


@reg('nom::bytes::complete::take_while', 'bytes::complete::take_while', 'take_while')
def m_take_while(c, call, pred): return PyFn(lambda i: tw(c, pred, i, False, 'TakeWhile'), 'take_while')
@reg('nom::bytes::complete::take_while1', 'bytes::complete::take_while1', 'take_while1')
def m_take_while1(c, call, pred): return PyFn(lambda i: tw(c, pred, i, True, 'TakeWhile1'), 'take_while1')


def rng(ch, a, b): return z3.And(z3.UGE(ch, a), z3.ULE(ch, b))


@reg('nom::character::is_digit', 'is_digit')
def m_is_digit(c, call, ch): return rng(ch, 0x30, 0x39)
@reg('nom::character::is_alphabetic', 'is_alphabetic')
def m_is_alpha(c, call, ch): return z3.Or(rng(ch, 0x41, 0x5a), rng(ch, 0x61, 0x7a))
@reg('nom::character::is_alphanumeric', 'is_alphanumeric')
def m_is_alnum(c, call, ch): return z3.Or(rng(ch, 0x30, 0x39), rng(ch, 0x41, 0x5a), rng(ch, 0x61, 0x7a))
@reg('nom::character::is_hex_digit', 'is_hex_digit')
def m_is_hex(c, call, ch): return z3.Or(rng(ch, 0x30, 0x39), rng(ch, 0x41, 0x46), rng(ch, 0x61, 0x66))
@reg('nom::character::complete::digit1', 'character::complete::digit1', 'digit1')
def m_digit1(c, call, i): return tw(c, PyFn(lambda ch: rng(ch, 0x30, 0x39)), i, True, 'Digit')


@reg('peek', 'nom::combinator::peek', 'combinator::peek')
def m_peek(c, call, p):
    def f(i):
        r = c.callf(p, [i])
        if r.variant == 'Err': return r
        return Ok(Tup([i, r.fields[0][1]]))
    return PyFn(f, 'peek')
