"""Value model of the MIR symbolic executor.

Scalars are z3 terms (BitVec / Bool); every compound value has a *concrete shape* (variant,
length) and symbolic scalar leaves.  References to compound values alias the Python object;
`&mut place` is an explicit l-value (LRef)."""
import z3

INT = {'u8': (8, False), 'u16': (16, False), 'u32': (32, False), 'u64': (64, False), 'usize': (64, False),
       'u128': (128, False), 'i8': (8, True), 'i16': (16, True), 'i32': (32, True), 'i64': (64, True),
       'isize': (64, True), 'i128': (128, True), 'char': (32, False)}


class PanicExc(Exception):
    """The interpreted program panicked.  site = (function, kind, message)."""
    def __init__(self, fn, kind, msg=''):
        Exception.__init__(self, f'{fn}: {kind}: {msg}')
        self.fn = fn; self.kind = kind; self.msg = msg

    def key(self):
        return f'{self.fn}::{self.kind}::{self.msg}'


class Unsupported(Exception):
    """The executor met something it has no semantics for: the check becomes inconclusive."""


class Infeasible(Exception):
    pass


class StopAtCall(Exception):
    """Lane B2: a harness-selected callee was reached; carries its arguments."""
    def __init__(self, callee, args):
        Exception.__init__(self, callee)
        self.callee = callee; self.args = args


class EnumV:
    __slots__ = ('ty', 'variant', 'fields')

    def __init__(self, ty, variant, fields=()):
        self.ty = ty; self.variant = variant; self.fields = list(fields)

    def __repr__(self):
        return f'{self.ty}::{self.variant}{self.fields if self.fields else ""}'


class StructV:
    __slots__ = ('ty', 'fields')

    def __init__(self, ty, fields):
        self.ty = ty; self.fields = dict(fields)

    def __repr__(self):
        return f'{self.ty}{self.fields}'

    def nth(self, i):
        return list(self.fields.values())[i]

    def set_nth(self, i, v):
        self.fields[list(self.fields.keys())[i]] = v


class Tup(list):
    pass


class BoxV(Tup):
    """Box<T>: one element; field projections into its Unique/NonNull internals are transparent,
    a deref yields the content"""


class ArrV(list):
    """fixed-size array [T; N]"""


class VecV:
    __slots__ = ('items',)

    def __init__(self, items=None):
        self.items = list(items or [])

    def __repr__(self):
        return f'Vec{self.items}'


class StrV:
    """String / str / Cow<str> contents: list of u8 terms (well-formedness tracked by the program)."""

    def __init__(self, b):
        self.b = list(b)

    def __repr__(self):
        return 'Str' + repr(self.b)


class SliceV:
    """&[T] view into a python list"""
    __slots__ = ('buf', 'lo', 'hi')

    def __init__(self, buf, lo=0, hi=None):
        self.buf = buf; self.lo = lo; self.hi = len(buf) if hi is None else hi

    def __len__(self):
        return self.hi - self.lo

    def at(self, i):
        return self.buf[self.lo + i]

    def sub(self, a, b=None):
        return SliceV(self.buf, self.lo + a, self.hi if b is None else self.lo + b)

    def items(self):
        return self.buf[self.lo:self.hi]

    def __repr__(self):
        return f'&[{self.lo}..{self.hi}]'


class BytesMutV:
    __slots__ = ('items', 'lo')

    def __init__(self, items):
        self.items = list(items); self.lo = 0


class FnItem:
    __slots__ = ('name',)

    def __init__(self, name):
        self.name = name

    def __repr__(self):
        return f'fn {self.name}'


class PyFn:
    """a callable implemented by a model (e.g. a nom parser value)"""
    __slots__ = ('f', 'name')

    def __init__(self, f, name=''):
        self.f = f; self.name = name


class ClosureV:
    __slots__ = ('name', 'caps', 'body_fn')

    def __init__(self, name, caps):
        self.name = name; self.caps = caps


class CoroV:
    """a coroutine (async fn / async block) object: state, upvars, saved locals per variant"""
    def __init__(self, body, upvars):
        self.body = body; self.state = 0; self.up = list(upvars); self.var = {}

    def __repr__(self):
        return f'Coro<{self.body}@{self.state}>'


class LRef:
    """&mut place: explicit l-value"""
    __slots__ = ('get', 'set')

    def __init__(self, get, set):
        self.get = get; self.set = set


class Cell:
    """a heap cell holding one value (Box::new_uninit, harness-owned &mut targets)"""
    def __init__(self, v=None):
        self.v = v

    def ref(self):
        return LRef(lambda: self.v, lambda x: setattr(self, 'v', x))


class BoxUninitV:
    def __init__(self):
        self.value = None


class Opaque:

    def __init__(self, t, info=None):
        self.t = t; self.info = info

    def __repr__(self):
        return f'<{self.t}>'


class IterV:
    """eager iterator over a python list"""
    __slots__ = ('items', 'i')

    def __init__(self, items):
        self.items = list(items); self.i = 0


class LazyIt:
    """lazy adapter: kind in map / filter_map / filter / cloned / enumerate / zip"""
    def __init__(self, kind, inner, f=None, other=None):
        self.kind = kind; self.inner = inner; self.f = f; self.other = other; self.n = 0


class MapV:
    """HashMap as association list with symbolic key equality"""
    def __init__(self, items=None):
        self.items = list(items or [])


class SetV:
    """HashSet as association list (keys only)"""
    def __init__(self, items=None):
        self.items = list(items or [])


class ZSet:
    """HashSet<i32> as a z3 array i32 -> Bool (arbitrary, possibly infinite content)"""
    def __init__(self, arr, K=4):
        self.arr = arr; self.hits = 0; self.K = K; self.removed = []; self.old = arr


UNIT = Tup()


def Ok(v): return EnumV('Result', 'Ok', [v])
def Err(e): return EnumV('Result', 'Err', [e])
def Some(v): return EnumV('Option', 'Some', [v])
def NONE(): return EnumV('Option', 'None')


_BV_CACHE = {}


def bv(v, bits):
    k = (v, bits)
    r = _BV_CACHE.get(k)
    if r is None:
        r = z3.BitVecVal(v, bits)
        if -1024 <= v <= 70000:
            _BV_CACHE[k] = r
    return r


def is_conc(x):
    return isinstance(x, z3.BitVecNumRef)


def conc(x):
    """python int of a concrete bit-vector term, or None"""
    if isinstance(x, z3.BitVecNumRef):
        return x.as_long()
    if z3.is_expr(x):
        s = z3.simplify(x)
        if isinstance(s, z3.BitVecNumRef):
            return s.as_long()
    return None


def deref(x):
    while isinstance(x, LRef):
        x = x.get()
    return x


def items_of(x):
    x = deref(x)
    if isinstance(x, VecV): return x.items
    if isinstance(x, SliceV): return x.items()
    if isinstance(x, StrV): return x.b
    if isinstance(x, BytesMutV): return x.items[x.lo:]
    if isinstance(x, (list,)): return list(x)
    raise Unsupported('items_of ' + repr(type(x)))
