"""Model registry: semantics of callees that have no MIR in the two crates (core/alloc/bytes/
std collections).  This file is the trusted part of engine B; each model is validated by the
concrete differential self-test (interpreter vs. native binary on the same inputs)."""
import re
import z3
from .values import *
from .engine import clone_val, copy_val, str_text, TRUE, FALSE, mask
from .mir import strip_generics, strip_angle, last_seg


class Models:
    def __init__(self):
        self.exact = {}
        self.patterns = []

    def reg(self, *keys):
        def deco(f):
            for k in keys:
                self.exact[k] = f
            return f
        return deco

    def regp(self, pat):
        def deco(f):
            self.patterns.append((re.compile(pat, re.S), f)); return f
        return deco

    def lookup(self, key, stripped):
        f = self.exact.get(stripped) or self.exact.get(key)
        if f is not None:
            return f
        for p, f in self.patterns:
            if p.search(stripped) or p.search(key):
                return f
        return None


M = Models()
reg = M.reg
regp = M.regp

B64 = lambda n: bv(n, 64)
BOOL = lambda b: TRUE if b else FALSE


def is_none(o): return deref(o).variant == 'None'


def seq_of(x):
    """python list backing a Vec / slice / str / array (for read access)"""
    x = deref(x)
    if isinstance(x, VecV): return x.items
    if isinstance(x, SliceV): return x.items()
    if isinstance(x, StrV): return x.b
    if isinstance(x, BytesMutV): return x.items[x.lo:]
    if isinstance(x, list): return x
    if isinstance(x, Tup) and len(x) == 1: return seq_of(x[0])
    raise Unsupported('seq_of ' + type(x).__name__)


def as_slice(x):
    x = deref(x)
    if isinstance(x, SliceV): return x
    if isinstance(x, VecV): return SliceV(x.items)
    if isinstance(x, StrV): return SliceV(x.b)
    if isinstance(x, BytesMutV): return SliceV(x.items, x.lo)
    if isinstance(x, list): return SliceV(x)
    raise Unsupported('as_slice ' + type(x).__name__)


# ---------------------------------------------------------------------------- structural equality

def eq_term(a, b):
    """z3 Bool: structural equality of two modelled values"""
    a = deref(a); b = deref(b)
    if z3.is_expr(a) and z3.is_expr(b):
        return a == b
    if isinstance(a, EnumV) and isinstance(b, EnumV):
        if a.variant != b.variant: return FALSE
        return and_all([eq_term(x, y) for x, y in zip(a.fields, b.fields)])
    if isinstance(a, StructV) and isinstance(b, StructV):
        return and_all([eq_term(x, y) for x, y in zip(a.fields.values(), b.fields.values())])
    if isinstance(a, (Tup, ArrV)) and isinstance(b, (Tup, ArrV)):
        if len(a) != len(b): return FALSE
        return and_all([eq_term(x, y) for x, y in zip(a, b)])
    if isinstance(a, (VecV, SliceV, StrV, list)) and isinstance(b, (VecV, SliceV, StrV, list)):
        xa = seq_of(a); xb = seq_of(b)
        if len(xa) != len(xb): return FALSE
        return and_all([eq_term(x, y) for x, y in zip(xa, xb)])
    if isinstance(a, Opaque) and isinstance(b, Opaque):
        return BOOL(a.t == b.t and a.info == b.info)
    raise Unsupported(f'eq_term {type(a).__name__} {type(b).__name__}')


def and_all(cs):
    cs = [c for c in cs if not z3.is_true(c)]
    if not cs: return TRUE
    if any(z3.is_false(c) for c in cs): return FALSE
    return z3.And(*cs) if len(cs) > 1 else cs[0]


def or_all(cs):
    cs = [c for c in cs if not z3.is_false(c)]
    if not cs: return FALSE
    if any(z3.is_true(c) for c in cs): return TRUE
    return z3.Or(*cs) if len(cs) > 1 else cs[0]


# ---------------------------------------------------------------------------- Option / Result

@reg('Option::expect', 'Result::expect')
def m_expect(c, call, o, msg=None):
    o = deref(o)
    if o.variant in ('None', 'Err'):
        raise PanicExc(c.cur_fn, 'expect', str_text(deref(msg)) if isinstance(deref(msg), StrV) else '')
    return o.fields[0]


@reg('Option::unwrap', 'Result::unwrap')
def m_unwrap(c, call, o):
    o = deref(o)
    if o.variant in ('None', 'Err'):
        raise PanicExc(c.cur_fn, 'unwrap', o.variant)
    return o.fields[0]


@reg('Result::unwrap_err')
def m_unwrap_err(c, call, o):
    o = deref(o)
    if o.variant == 'Ok': raise PanicExc(c.cur_fn, 'unwrap_err', '')
    return o.fields[0]


@reg('Option::is_some')
def m_is_some(c, call, o): return BOOL(deref(o).variant == 'Some')
@reg('Option::is_none')
def m_is_none(c, call, o): return BOOL(deref(o).variant == 'None')
@reg('Result::is_ok')
def m_is_ok(c, call, o): return BOOL(deref(o).variant == 'Ok')
@reg('Result::is_err')
def m_is_err(c, call, o): return BOOL(deref(o).variant == 'Err')


@reg('Option::and_then')
def m_and_then(c, call, o, f):
    o = deref(o)
    return c.callf(f, [o.fields[0]]) if o.variant == 'Some' else NONE()


@reg('Result::and_then')
def m_res_and_then(c, call, o, f):
    o = deref(o)
    return c.callf(f, [o.fields[0]]) if o.variant == 'Ok' else o


@reg('Option::map')
def m_opt_map(c, call, o, f):
    o = deref(o)
    return Some(c.callf(f, [o.fields[0]])) if o.variant == 'Some' else NONE()


@reg('Result::map')
def m_res_map(c, call, o, f):
    o = deref(o)
    return Ok(c.callf(f, [o.fields[0]])) if o.variant == 'Ok' else o


@reg('Result::map_err')
def m_map_err(c, call, r, f):
    r = deref(r)
    return r if r.variant == 'Ok' else Err(c.callf(f, [r.fields[0]]))


@reg('Result::or_else')
def m_or_else(c, call, r, f):
    r = deref(r)
    return r if r.variant == 'Ok' else c.callf(f, [r.fields[0]])


@reg('Result::ok')
def m_res_ok(c, call, r):
    r = deref(r)
    return Some(r.fields[0]) if r.variant == 'Ok' else NONE()


@reg('Option::ok_or')
def m_ok_or(c, call, o, e):
    o = deref(o)
    return Ok(o.fields[0]) if o.variant == 'Some' else Err(e)


@reg('Option::unwrap_or', 'Result::unwrap_or')
def m_unwrap_or(c, call, o, d):
    o = deref(o)
    return o.fields[0] if o.variant in ('Some', 'Ok') else d


@reg('Option::unwrap_or_else')
def m_unwrap_or_else(c, call, o, f):
    o = deref(o)
    return o.fields[0] if o.variant == 'Some' else c.callf(f, [])


@reg('Option::unwrap_or_default')
def m_unwrap_or_default(c, call, o):
    o = deref(o)
    if o.variant == 'Some': return o.fields[0]
    raise Unsupported('unwrap_or_default on None')


@reg('Option::as_mut', 'Option::as_ref', 'Option::as_deref', 'Option::as_deref_mut')
def m_opt_as_ref(c, call, o):
    o = deref(o)
    if o.variant != 'Some': return NONE()
    if call.key == 'Option::as_mut':
        return Some(LRef(lambda: o.fields[0], lambda v: o.fields.__setitem__(0, v)))
    return Some(o.fields[0])


@reg('Result::as_ref', 'Result::as_mut')
def m_res_as_ref(c, call, r):
    r = deref(r); return EnumV('Result', r.variant, [r.fields[0]])


@reg('Option::take')
def m_opt_take(c, call, r):
    if isinstance(r, LRef):
        o = r.get(); r.set(NONE()); return o
    o = deref(r)
    old = EnumV('Option', o.variant, o.fields)
    o.variant = 'None'; o.fields = []
    return old


@reg('Option::replace')
def m_opt_replace(c, call, r, v):
    if isinstance(r, LRef):
        o = r.get(); r.set(Some(v)); return o
    o = deref(r); old = EnumV('Option', o.variant, o.fields); o.variant = 'Some'; o.fields = [v]; return old


@reg('Option::copied', 'Option::cloned')
def m_opt_copied(c, call, o):
    o = deref(o)
    return Some(clone_val(o.fields[0])) if o.variant == 'Some' else NONE()


@reg('Option::get_or_insert_with')
def m_get_or_insert_with(c, call, r, f):
    o = deref(r)
    if o.variant == 'None':
        v = c.callf(f, []); o.variant = 'Some'; o.fields = [v]
    return LRef(lambda: o.fields[0], lambda v: o.fields.__setitem__(0, v))


@reg('Try::branch')
def m_branch(c, call, r):
    r = deref(r)
    if r.ty == 'Result':
        return EnumV('ControlFlow', 'Continue', [r.fields[0]]) if r.variant == 'Ok' else EnumV('ControlFlow', 'Break', [Err(r.fields[0])])
    if r.ty == 'Option':
        return EnumV('ControlFlow', 'Continue', [r.fields[0]]) if r.variant == 'Some' else EnumV('ControlFlow', 'Break', [NONE()])
    raise Unsupported('Try::branch on ' + r.ty)


def _result_err_types(callee):
    """`<Result<T, F> as FromResidual<Result<Infallible, E>>>::from_residual` -> (F, E)"""
    s = callee
    m = re.match(r'^<(.*) as (?:std::ops::)?FromResidual<(.*)>>::from_residual$', s, re.S)
    if not m: return None, None
    def second_arg(t):
        t = t.strip()
        i = t.find('<')
        if i < 0: return None
        parts = __import__('mirsym.mir', fromlist=['split_top']).split_top(t[i + 1:-1])
        return parts[-1] if parts else None
    return second_arg(m.group(1)), second_arg(m.group(2))


@reg('FromResidual::from_residual')
def m_from_residual(c, call, r):
    r = deref(r)
    if r.ty == 'Option': return NONE()
    e = r.fields[0]
    F, E = _result_err_types(call.callee)
    if F is not None and E is not None and strip_angle(F).strip() != strip_angle(E).strip():
        tgt = last_seg(strip_angle(F).strip()); srcn = last_seg(strip_angle(E).strip())
        hit = c.find_from_impl(tgt, srcn, E)
        if hit is not None:
            return Err(c.run_compiled(hit, [e]))
        return Err(Opaque('converted-error', (tgt, srcn, e)))
    return Err(e)


# ---------------------------------------------------------------------------- Vec / slices / arrays

@reg('Vec::new', 'Vec::with_capacity', 'Vec::default')
def m_vec_new(c, call, *a): return VecV()
@reg('String::new', 'String::with_capacity')
def m_string_new(c, call, *a): return StrV([])


@reg('Vec::push')
def m_vec_push(c, call, v, x): deref(v).items.append(x); return UNIT
@reg('Vec::pop')
def m_vec_pop(c, call, v):
    v = deref(v); return Some(v.items.pop()) if v.items else NONE()
@reg('Vec::len')
def m_vec_len(c, call, v): return B64(len(seq_of(v)))
@reg('Vec::is_empty')
def m_vec_is_empty(c, call, v): return BOOL(len(seq_of(v)) == 0)
@reg('Vec::clear')
def m_vec_clear(c, call, v): deref(v).items.clear(); return UNIT
@reg('Vec::as_slice', 'Vec::as_mut_slice', 'String::as_bytes', 'str::as_bytes', 'String::as_str', 'String::as_mut_str')
def m_as_slice_(c, call, v):
    v = deref(v)
    if call.key in ('String::as_str',): return v
    return as_slice(v)


@reg('Vec::remove')
def m_vec_remove(c, call, v, ix):
    v = deref(v); k = conc(ix)
    if k is None: k = c.choose_int(ix, 0, len(v.items) - 1)
    if k is None or k >= len(v.items): raise PanicExc(c.cur_fn, 'index', 'removal index out of bounds')
    return v.items.pop(k)


@reg('Vec::swap_remove')
def m_vec_swap_remove(c, call, v, ix):
    v = deref(v); k = conc(ix)
    if k is None or k >= len(v.items): raise PanicExc(c.cur_fn, 'index', 'swap_remove index out of bounds')
    x = v.items[k]; v.items[k] = v.items[-1]; v.items.pop(); return x


@reg('Vec::insert')
def m_vec_insert(c, call, v, ix, x):
    v = deref(v); k = conc(ix)
    if k is None or k > len(v.items): raise PanicExc(c.cur_fn, 'index', 'insertion index out of bounds')
    v.items.insert(k, x); return UNIT


@reg('Vec::extend_from_slice')
def m_extend_from_slice(c, call, v, s): deref(v).items.extend(seq_of(s)); return UNIT


@reg('Vec::append')
def m_vec_append(c, call, v, o):
    o = deref(o); deref(v).items.extend(o.items); o.items = []; return UNIT


def _lt_term(c, a, b, callee=''):
    """a < b for sort keys: booleans (false < true), bit-vectors (unsigned unless the callee names a signed type)"""
    a = deref(a); b = deref(b)
    if z3.is_bool(a) or isinstance(a, bool): return z3.And(z3.Not(a), b)
    if z3.is_bv(a):
        return (a < b) if re.search(r'<i(8|16|32|64|size)\b', callee) else z3.ULT(a, b)
    raise Unsupported('sort key of type ' + type(a).__name__)


def _sort_target(v):
    v = deref(v)
    if isinstance(v, VecV): return (lambda: list(v.items)), (lambda xs: setattr(v, 'items', xs))
    if isinstance(v, SliceV):
        def put(xs): v.buf[v.lo:v.hi] = xs
        return (lambda: list(v.buf[v.lo:v.hi])), put
    raise Unsupported('sort on ' + type(v).__name__)


def _stable_sort(c, items, lt):
    out = []
    for x in items:                       # insertion sort, stable: x goes after every element not greater than it
        i = len(out)
        while i > 0 and c.branch(lt(x, out[i - 1])): i -= 1
        out.insert(i, x)
    return out


@reg('slice::sort_by_key', 'slice::sort_by_cached_key', 'slice::sort_unstable_by_key', 'Vec::sort_by_key')
def m_sort_by_key(c, call, v, f):
    get, put = _sort_target(v)
    keyed = [(c.callf(f, [x]), x) for x in get()]
    put([x for _, x in _stable_sort(c, keyed, lambda a, b: _lt_term(c, a[0], b[0], call.callee))])
    return UNIT


@reg('slice::sort', 'slice::sort_unstable', 'Vec::sort', 'Vec::sort_unstable')
def m_sort(c, call, v):
    get, put = _sort_target(v)
    put(_stable_sort(c, get(), lambda a, b: _lt_term(c, a, b, call.callee)))
    return UNIT


@reg('slice::sort_by', 'slice::sort_unstable_by', 'Vec::sort_by')
def m_sort_by(c, call, v, f):
    get, put = _sort_target(v)
    def lt(a, b):
        o = c.callf(f, [a, b]); return z3.BoolVal(deref(o).variant == 'Less')
    put(_stable_sort(c, get(), lt))
    return UNIT


@reg('Vec::first', 'Vec::last')
def m_vec_first_last(c, call, v):
    xs = deref(v).items
    if not xs: return NONE()
    return Some(xs[0] if call.key.endswith('first') else xs[-1])
@reg('Vec::retain', 'HashSet::retain')
def m_vec_retain(c, call, v, f):
    v = deref(v); v.items = [x for x in list(v.items) if c.branch(c.callf(f, [x]))]; return UNIT
@reg('HashMap::retain')
def m_hm_retain(c, call, m, f):
    m = deref(m); m.items = [(k, x) for k, x in list(m.items) if c.branch(c.callf(f, [k, x]))]; return UNIT
@reg('Vec::split_off')
def m_vec_split_off(c, call, v, n):
    v = deref(v); k = conc(n)
    if k is None: raise Unsupported('split_off(symbolic)')
    if k > len(v.items): raise PanicExc(c.cur_fn, 'index', 'split_off at > len')
    tail = v.items[k:]; del v.items[k:]; return VecV(tail)
@reg('Vec::drain')
def m_vec_drain(c, call, v, rng=None):
    v = deref(v); r = deref(rng) if rng is not None else None
    lo, hi = 0, len(v.items)
    if isinstance(r, StructV):
        if 'start' in r.fields: lo = conc(r.fields['start'])
        if 'end' in r.fields: hi = conc(r.fields['end']) + (1 if r.ty == 'RangeInclusive' else 0)
        if lo is None or hi is None: raise Unsupported('drain(symbolic range)')
    out = v.items[lo:hi]; del v.items[lo:hi]; return IterV(out)
@reg('Vec::reverse', 'slice::reverse')
def m_vec_reverse(c, call, v):
    v = deref(v)
    if isinstance(v, VecV): v.items.reverse(); return UNIT
    raise Unsupported('reverse on ' + type(v).__name__)
@reg('Vec::dedup')
def m_vec_dedup(c, call, v):
    v = deref(v); out = []
    for x in v.items:
        if out and c.branch(eq_term(out[-1], x)): continue
        out.append(x)
    v.items = out; return UNIT
@reg('slice::split_first', 'slice::split_last')
def m_split_first_last(c, call, v):
    s = as_slice(v); n = len(seq_of(s))
    if n == 0: return NONE()
    return Some(Tup([seq_of(s)[0], s.sub(1)])) if call.key.endswith('first') else Some(Tup([seq_of(s)[-1], s.sub(0, n - 1)]))


@reg('Vec::truncate')
def m_vec_truncate(c, call, v, n):
    v = deref(v); k = conc(n)
    if k is None: raise Unsupported('symbolic truncate')
    del v.items[k:]; return UNIT


@reg('Vec::reserve', 'String::reserve', 'Vec::shrink_to_fit')
def m_noop(c, call, *a): return UNIT


@reg('Extend::extend')
def m_extend(c, call, v, o):
    v = deref(v); o = deref(o)
    tgt = v.items if isinstance(v, (VecV, BytesMutV)) else (v.b if isinstance(v, StrV) else None)
    if tgt is None: raise Unsupported('extend on ' + type(v).__name__)
    if isinstance(o, (IterV, LazyIt)) or hasattr(o, 'it_next'):
        tgt.extend(collect_list(c, o))
    else:
        tgt.extend(seq_of(o))
    return UNIT


@reg('Box::new_uninit')
def m_box_uninit(c, call): return BoxUninitV()
@reg('std::boxed::box_assume_init_into_vec_unsafe')
def m_box_into_vec(c, call, b): return VecV(deref(b).value)
@reg('slice::into_vec')
def m_slice_into_vec(c, call, b):
    b = deref(b)
    return VecV(b.value if isinstance(b, BoxUninitV) else seq_of(b))
@reg('Box::new')
def m_box_new_(c, call, x): return BoxV([x])
@reg('Box::pin')
def m_box_pin(c, call, x): return Tup([BoxV([x])])
@reg('Arc::new', 'Rc::new', 'Pin::new', 'Pin::new_unchecked', 'Mutex::new')
def m_box_new(c, call, x): return Tup([x])
@reg('Pin::as_mut', 'Pin::get_mut', 'Pin::into_inner', 'Pin::get_unchecked_mut', 'Pin::as_ref', 'Pin::get_ref', 'Pin::into_ref', 'Pin::set')
def m_pin_passthrough(c, call, x, *a):
    x = deref(x)
    if call.key in ('Pin::get_mut', 'Pin::into_inner', 'Pin::get_unchecked_mut', 'Pin::get_ref'):
        return x[0] if isinstance(x, Tup) and len(x) == 1 else x
    return x


@reg('Deref::deref', 'DerefMut::deref_mut', 'AsRef::as_ref', 'AsMut::as_mut', 'Borrow::borrow', 'BorrowMut::borrow_mut')
def m_deref(c, call, x):
    if call.self_ty == 'CONTROLS':
        # lazy_static table: its contents are whatever the initialiser's MIR builds
        return c.run_fn('__static_ref_initialize', [])
    v = deref(x)
    if isinstance(v, Tup) and len(v) == 1 and call.key.startswith('Deref'):
        # Box / Arc / Pin / guard wrappers
        return v[0]
    if isinstance(v, (VecV, BytesMutV)): return as_slice(v)
    if isinstance(v, EnumV) and v.ty == 'Cow': return v.fields[0]
    if isinstance(v, ArrV): return SliceV(v)
    if hasattr(v, 'deref_target'): return v.deref_target()
    return v


@reg('Index::index', 'IndexMut::index_mut')
def m_index(c, call, v, ix):
    v0 = deref(v); ix = deref(ix)
    if isinstance(ix, (StructV, Tup)) or (isinstance(ix, EnumV)):
        return index_range(c, v0, ix)
    seq = seq_of(v0)
    k = conc(ix)
    if k is None:
        k = c.choose_int(ix, 0, len(seq) - 1)
        if k is None: raise PanicExc(c.cur_fn, 'index', 'index out of bounds')
    if k >= len(seq): raise PanicExc(c.cur_fn, 'index', 'index out of bounds')
    if call.key == 'IndexMut::index_mut':
        return LRef(lambda: seq_of(v0)[k], lambda val: seq_of(v0).__setitem__(k, val))
    return seq[k]


def range_bounds(c, r, n):
    """concrete (lo, hi) of a Range* struct over a sequence of length n; None when symbolic bound > n"""
    r = deref(r)
    ty = r.ty if isinstance(r, StructV) else 'RangeFull'
    def cv(x, default):
        if x is None: return default
        k = conc(x)
        if k is None:
            k = c.choose_int(x, 0, n)
            if k is None: return n + 1
        return k
    if ty == 'RangeFull': return 0, n
    f = r.fields
    if ty == 'Range': return cv(f['start'], 0), cv(f['end'], n)
    if ty == 'RangeFrom': return cv(f['start'], 0), n
    if ty == 'RangeTo': return 0, cv(f['end'], n)
    if ty == 'RangeInclusive': return cv(f['start'], 0), cv(f['end'], n) + 1
    if ty == 'RangeToInclusive': return 0, cv(f['end'], n) + 1
    raise Unsupported('range type ' + ty)


def is_char_boundary_term(bs, k):
    if k == 0 or k == len(bs): return TRUE
    b = bs[k]
    return z3.Or(z3.ULT(b, 0x80), z3.UGE(b, 0xC0))


def index_range(c, v, r):
    n = len(seq_of(v))
    lo, hi = range_bounds(c, r, n)
    if lo > hi: raise PanicExc(c.cur_fn, 'index', 'slice index starts after end')
    if hi > n: raise PanicExc(c.cur_fn, 'index', 'range end out of bounds')
    if isinstance(v, StrV):
        for k in (lo, hi):
            if not c.branch(is_char_boundary_term(v.b, k)):
                raise PanicExc(c.cur_fn, 'index', 'byte index is not a char boundary')
        return StrV(v.b[lo:hi])
    return as_slice(v).sub(lo, hi)


@reg('slice::len', 'str::len', 'String::len', '[T]::len', 'BytesMut::len', 'InputLength::input_len', 'ExactSizeIterator::len')
def m_len(c, call, v):
    v = deref(v)
    if isinstance(v, (IterV,)): return B64(len(v.items) - v.i)
    return B64(len(seq_of(v)))


@reg('slice::is_empty', 'str::is_empty', 'String::is_empty', 'BytesMut::is_empty')
def m_is_empty(c, call, v): return BOOL(len(seq_of(v)) == 0)


@reg('slice::to_vec', 'ToOwned::to_owned', 'slice::to_owned', 'str::to_owned', 'str::to_string', 'ToString::to_string', 'String::from', 'str::into_string')
def m_to_owned(c, call, v):
    v = deref(v)
    if isinstance(v, StrV): return StrV(list(v.b))
    if isinstance(v, EnumV) and v.ty == 'Cow': return m_to_owned(c, call, v.fields[0])
    return VecV(list(seq_of(v)))


@reg('slice::iter', 'slice::iter_mut', 'Vec::iter', 'Vec::iter_mut')
def m_slice_iter(c, call, v): return IterV(seq_of(v))


@reg('slice::first')
def m_first(c, call, v):
    s = seq_of(v); return Some(s[0]) if s else NONE()
@reg('slice::last')
def m_last(c, call, v):
    s = seq_of(v); return Some(s[-1]) if s else NONE()


@reg('slice::get', 'Vec::get')
def m_get(c, call, v, ix):
    s = seq_of(v); k = conc(deref(ix))
    if k is None:
        k = c.choose_int(ix, 0, len(s) - 1)
        if k is None: return NONE()
    return Some(s[k]) if k < len(s) else NONE()


@reg('slice::contains', 'Vec::contains')
def m_contains(c, call, v, x):
    for e in seq_of(v):
        if c.branch(eq_term(e, x)): return TRUE
    return FALSE


@reg('slice::starts_with')
def m_starts_with(c, call, v, p):
    a = seq_of(v); b = seq_of(p)
    if len(b) > len(a): return FALSE
    return and_all([x == y for x, y in zip(a, b)])


@reg('slice::split_at')
def m_split_at(c, call, v, ix):
    s = as_slice(v); k = conc(ix)
    if k is None or k > len(s): raise PanicExc(c.cur_fn, 'index', 'mid > len')
    return Tup([s.sub(0, k), s.sub(k)])


@reg('slice::copy_from_slice')
def m_copy_from_slice(c, call, d, s):
    d = as_slice(d); s = seq_of(s)
    if len(d) != len(s): raise PanicExc(c.cur_fn, 'index', 'copy_from_slice length mismatch')
    for i, x in enumerate(s): d.buf[d.lo + i] = x
    return UNIT


@reg('u64::to_be_bytes', 'usize::to_be_bytes', 'i64::to_be_bytes', 'u32::to_be_bytes', 'i32::to_be_bytes', 'u16::to_be_bytes')
def m_to_be_bytes(c, call, v):
    n = v.size() // 8
    return ArrV([z3.simplify(z3.Extract(8 * (n - 1 - i) + 7, 8 * (n - 1 - i), v)) for i in range(n)])


@reg('u8::to_ascii_lowercase', 'core::num::to_ascii_lowercase', 'u8::to_ascii_uppercase')
def m_ascii_lower(c, call, v):
    v = deref(v)
    if call.key.endswith('uppercase'):
        return z3.If(z3.And(z3.UGE(v, 0x61), z3.ULE(v, 0x7a)), v - 32, v)
    return z3.If(z3.And(z3.UGE(v, 0x41), z3.ULE(v, 0x5a)), v | 0x20, v)


@reg('u8::is_ascii_digit')
def m_is_ascii_digit(c, call, v):
    v = deref(v); return z3.And(z3.UGE(v, 0x30), z3.ULE(v, 0x39))


@reg('TryFrom::try_from', 'TryInto::try_into')
def m_try_from(c, call, v):
    callee = strip_generics(call.callee)
    m = re.match(r'^<(\w+) as (?:std::convert::)?TryFrom<(\w+)>>::try_from$', callee) or re.match(r'^<(\w+) as (?:std::convert::)?TryInto<(\w+)>>::try_into$', callee)
    if not m: raise Unsupported('try_from ' + callee)
    d, s = (m.group(1), m.group(2)) if 'TryFrom' in callee else (m.group(2), m.group(1))
    db, ds = INT[d]; sb, ss = INT[s]
    wide = max(db, sb) + 1
    ext = lambda x, sg, fr: (z3.SignExt(wide - fr, x) if sg else z3.ZeroExt(wide - fr, x))
    xv = ext(v, ss, sb)
    lo = -(1 << (db - 1)) if ds else 0; hi = (1 << (db - 1)) - 1 if ds else (1 << db) - 1
    fits = z3.And(xv >= z3.BitVecVal(lo, wide), xv <= z3.BitVecVal(hi, wide))
    if c.branch(z3.simplify(fits)):
        return Ok(z3.simplify(z3.Extract(db - 1, 0, xv)) if db < wide else xv)
    return Err(Opaque('TryFromIntError'))


@reg('From::from', 'Into::into')
def m_from(c, call, v):
    callee = strip_generics(call.callee)
    v0 = deref(v)
    m = re.match(r'^<(.*) as (?:std::convert::)?From<(.*)>>::from$', callee, re.S)
    if m is None:
        mi = re.match(r'^<(.*) as (?:std::convert::)?Into<(.*)>>::into$', callee, re.S)
        if mi: m = type('x', (), {'group': lambda self, i, a=mi: a.group(2 if i == 1 else 1)})()
    if m:
        d = m.group(1).strip(); s = m.group(2).strip()
        ds = strip_angle(d)
        if d in INT and z3.is_bv(v0):
            db, _ = INT[d]; sb = v0.size(); ss = INT.get(s, (sb, False))[1]
            if db == sb: return v0
            return z3.SignExt(db - sb, v0) if ss else z3.ZeroExt(db - sb, v0)
        if d in INT and z3.is_bool(v0):
            return z3.If(v0, z3.BitVecVal(1, INT[d][0]), z3.BitVecVal(0, INT[d][0]))
        if ds.startswith('Vec') or ds.endswith('::Vec'):
            if isinstance(v0, ArrV): return VecV(list(v0))
            if isinstance(v0, EnumV) and v0.ty == 'Cow': v0 = deref(v0.fields[0])
            return VecV(list(seq_of(v0)))
        if last_seg(ds) == 'String':
            if isinstance(v0, EnumV) and v0.ty == 'Cow': v0 = deref(v0.fields[0])
            return StrV(list(seq_of(v0)))
        if last_seg(ds) == 'Cow':
            if isinstance(v0, EnumV) and v0.ty == 'Cow': return v0
            owned = last_seg(strip_angle(s)) in ('String', 'Vec')
            return EnumV('Cow', 'Owned' if owned else 'Borrowed', [v0])
        if last_seg(ds) in ('Box', 'Arc', 'Rc'):
            return Tup([v0])
        if last_seg(ds) == 'HashSet' and isinstance(v0, ArrV):
            s_ = SetV()
            for x in v0: set_insert(c, s_, x)
            return s_
        if last_seg(ds) == 'Option':
            return Some(v0)
        if strip_angle(d) == strip_angle(s) or getattr(v0, 'ty', None) == last_seg(ds):
            return v0
        tgt = last_seg(ds); tyname = getattr(v0, 'ty', None) or last_seg(strip_angle(s))
        hit = c.find_from_impl(tgt, tyname)
        if hit is not None:
            return c.run_compiled(hit, [v])
    raise Unsupported('From/Into ' + callee[:160])


@reg('Clone::clone', 'Option::clone', 'Vec::clone')
def m_clone(c, call, v):
    st = (call.self_ty or '').strip()
    if st.startswith(('Arc<', 'Rc<', 'std::sync::Arc<', 'UnboundedSender<', 'tokio::sync::mpsc::UnboundedSender<')):
        return deref(v)            # shared ownership: the clone aliases the same object
    return clone_val(v)


@regp(r'^(std::|core::)?mem::size_of$')
def m_size_of(c, call):
    m = re.search(r'size_of::<(.*)>$', call.callee.strip(), re.S)
    t = m.group(1).strip() if m else ''
    sz = {'u8': 1, 'i8': 1, 'bool': 1, 'u16': 2, 'i16': 2, 'u32': 4, 'i32': 4, 'char': 4, 'u64': 8, 'i64': 8, 'usize': 8, 'isize': 8, 'u128': 16, 'i128': 16}.get(t)
    if sz is None: raise Unsupported('size_of::<' + t + '>')
    return z3.BitVecVal(sz, 64)


@reg('Option::is_some_and', 'Result::is_ok_and')
def m_opt_is_some_and(c, call, o, f):
    o = deref(o)
    if o.variant in ('None', 'Err'): return FALSE
    return c.callf(f, [o.fields[0]])


@reg('Option::is_none_or')
def m_opt_is_none_or(c, call, o, f):
    o = deref(o)
    if o.variant == 'None': return TRUE
    return c.callf(f, [o.fields[0]])


@reg('Option::map_or', 'Result::map_or')
def m_map_or(c, call, o, dflt, f):
    o = deref(o)
    return c.callf(f, [o.fields[0]]) if o.variant in ('Some', 'Ok') else dflt
@reg('Option::map_or_else')
def m_opt_map_or_else(c, call, o, g, f):
    o = deref(o)
    return c.callf(f, [o.fields[0]]) if o.variant == 'Some' else c.callf(g, [])
@reg('Result::map_or_else')
def m_res_map_or_else(c, call, o, g, f):
    o = deref(o)
    return c.callf(f, [o.fields[0]]) if o.variant == 'Ok' else c.callf(g, [o.fields[0]])
@reg('Option::ok_or_else')
def m_opt_ok_or_else(c, call, o, f):
    o = deref(o)
    return Ok(o.fields[0]) if o.variant == 'Some' else Err(c.callf(f, []))
@reg('Option::or')
def m_opt_or(c, call, o, other):
    o = deref(o); return o if o.variant == 'Some' else other
@reg('Option::or_else')
def m_opt_or_else(c, call, o, f):
    o = deref(o); return o if o.variant == 'Some' else c.callf(f, [])
@reg('Option::and')
def m_opt_and(c, call, o, other):
    o = deref(o); return other if o.variant == 'Some' else NONE()
@reg('Option::xor')
def m_opt_xor(c, call, a, b):
    a = deref(a); b = deref(b)
    if a.variant == 'Some' and b.variant == 'None': return a
    if a.variant == 'None' and b.variant == 'Some': return b
    return NONE()
@reg('Option::zip')
def m_opt_zip(c, call, a, b):
    a = deref(a); b = deref(b)
    return Some(Tup([a.fields[0], b.fields[0]])) if a.variant == 'Some' and b.variant == 'Some' else NONE()
@reg('Option::flatten')
def m_opt_flatten(c, call, o):
    o = deref(o); return deref(o.fields[0]) if o.variant == 'Some' else NONE()
@reg('Option::insert', 'Option::get_or_insert')
def m_opt_insert(c, call, o, v):
    o = deref(o)
    if call.key.endswith('get_or_insert') and o.variant == 'Some': return o.fields[0]
    o.variant = 'Some'; o.fields = [v]; return v
@reg('Option::iter', 'Option::into_iter', 'Result::iter')
def m_opt_iter(c, call, o):
    o = deref(o); return IterV(list(o.fields) if o.variant in ('Some', 'Ok') else [])
@reg('Result::unwrap_or_else')
def m_res_unwrap_or_else(c, call, o, f):
    o = deref(o); return o.fields[0] if o.variant == 'Ok' else c.callf(f, [o.fields[0]])
@reg('Result::err')
def m_res_err(c, call, o):
    o = deref(o); return Some(o.fields[0]) if o.variant == 'Err' else NONE()
@reg('Result::and')
def m_res_and(c, call, o, other):
    o = deref(o); return other if o.variant == 'Ok' else o
@reg('Result::or')
def m_res_or(c, call, o, other):
    o = deref(o); return o if o.variant == 'Ok' else other


@reg('Option::filter')
def m_opt_filter(c, call, o, f):
    o = deref(o)
    if o.variant == 'None': return o
    keep = c.callf(f, [o.fields[0]])
    return o if c.branch(keep) else NONE()


@reg('Clone::clone_from', 'Vec::clone_from', 'String::clone_from')
def m_clone_from(c, call, r, src):
    new = clone_val(src)
    if isinstance(r, LRef):
        r.set(new); return UNIT
    v = deref(r); n = deref(new)
    if isinstance(v, VecV) and isinstance(n, VecV):
        v.items = list(n.items); return UNIT
    if isinstance(v, StrV) and isinstance(n, StrV):
        v.b = list(n.b); return UNIT
    raise Unsupported('clone_from through transparent ref of ' + type(v).__name__)


@regp(r'^(u8|u16|u32|u64|usize|i32|i64)::(leading_zeros|trailing_zeros|count_ones)$')
def m_bitcount(c, call, v):
    n = v.size(); k = conc(v) if is_conc(v) else None
    which = call.key.split('::')[1]
    if k is not None:
        if which == 'leading_zeros': r = n - k.bit_length()
        elif which == 'trailing_zeros': r = n if k == 0 else (k & -k).bit_length() - 1
        else: r = bin(k).count('1')
        return z3.BitVecVal(r, 32)
    if which == 'count_ones':
        return z3.simplify(sum([z3.ZeroExt(31, z3.Extract(i, i, v)) for i in range(n)], z3.BitVecVal(0, 32)))
    out = z3.BitVecVal(n, 32)
    rng_ = range(n) if which == 'leading_zeros' else range(n - 1, -1, -1)
    for i in rng_:
        # the highest (lowest) set bit decides
        out = z3.If(z3.Extract(i, i, v) == 1, z3.BitVecVal(n - 1 - i if which == 'leading_zeros' else i, 32), out)
    return out


@reg('PartialEq::eq')
def m_eq(c, call, a, b): return eq_term(a, b)
@reg('PartialEq::ne')
def m_ne(c, call, a, b): return z3.simplify(z3.Not(eq_term(a, b)))


@reg('Default::default')
def m_default(c, call):
    t = strip_angle(call.self_ty or '').strip(); tl = last_seg(t)
    if tl in INT: return z3.BitVecVal(0, INT[tl][0])
    if tl == 'bool': return FALSE
    if tl == 'Option': return NONE()
    if tl == 'Vec': return VecV()
    if tl == 'String': return StrV([])
    if tl in ('&str', 'str'): return StrV([])
    if tl == 'HashMap': return MapV()
    if tl == 'HashSet': return SetV()
    if tl == 'PhantomData': return StructV('PhantomData', [])
    if tl == '()': return UNIT
    raise Unsupported('Default for ' + t)


@reg('std::mem::take', 'core::mem::take', 'mem::take')
def m_mem_take(c, call, r):
    if isinstance(r, LRef):
        old = r.get()
        new = default_like(old); r.set(new); return old
    v = deref(r)
    if isinstance(v, VecV):
        old = VecV(v.items); v.items = []; return old
    if isinstance(v, StrV):
        old = StrV(v.b); v.b = []; return old
    raise Unsupported('mem::take through transparent ref of ' + type(v).__name__)


def default_like(v):
    v = deref(v)
    if isinstance(v, VecV): return VecV()
    if isinstance(v, StrV): return StrV([])
    if isinstance(v, EnumV) and v.ty == 'Option': return NONE()
    if z3.is_bv(v): return z3.BitVecVal(0, v.size())
    if z3.is_bool(v): return FALSE
    if isinstance(v, MapV): return MapV()
    raise Unsupported('default_like ' + type(v).__name__)


@reg('std::mem::replace', 'core::mem::replace', 'mem::replace')
def m_mem_replace(c, call, r, new):
    if isinstance(r, LRef):
        old = r.get(); r.set(new); return old
    raise Unsupported('mem::replace through transparent ref')


@reg('std::mem::swap', 'core::mem::swap', 'mem::swap')
def m_mem_swap(c, call, a, b):
    if isinstance(a, LRef) and isinstance(b, LRef):
        x = a.get(); y = b.get(); a.set(y); b.set(x); return UNIT
    raise Unsupported('mem::swap through transparent ref')


@reg('std::mem::drop', 'core::mem::drop', 'mem::drop', 'std::mem::forget', 'mem::forget')
def m_mem_drop(c, call, v):
    if call.key.endswith('drop'): c.drop_value(v)
    return UNIT


@reg('Drop::drop')
def m_drop_trait(c, call, v): return UNIT


# ---------------------------------------------------------------------------- strings / UTF-8

def utf8_valid(bs):
    """z3 Bool: the concrete-length byte list is well-formed UTF-8 (Unicode 15 table 3-7)"""
    n = len(bs)
    def cont(x): return z3.And(z3.UGE(x, 0x80), z3.ULE(x, 0xBF))
    def rng(x, a, b): return z3.And(z3.UGE(x, a), z3.ULE(x, b))
    memo = {}
    def v(i):
        if i == n: return TRUE
        if i in memo: return memo[i]
        b0 = bs[i]; alts = [z3.And(z3.ULT(b0, 0x80), v(i + 1))]
        if i + 1 < n: alts.append(z3.And(rng(b0, 0xC2, 0xDF), cont(bs[i + 1]), v(i + 2)))
        if i + 2 < n:
            b1, b2 = bs[i + 1], bs[i + 2]
            alts.append(z3.And(z3.Or(z3.And(b0 == 0xE0, rng(b1, 0xA0, 0xBF)), z3.And(rng(b0, 0xE1, 0xEC), cont(b1)), z3.And(b0 == 0xED, rng(b1, 0x80, 0x9F)), z3.And(rng(b0, 0xEE, 0xEF), cont(b1))), cont(b2), v(i + 3)))
        if i + 3 < n:
            b1, b2, b3 = bs[i + 1], bs[i + 2], bs[i + 3]
            alts.append(z3.And(z3.Or(z3.And(b0 == 0xF0, rng(b1, 0x90, 0xBF)), z3.And(rng(b0, 0xF1, 0xF3), cont(b1)), z3.And(b0 == 0xF4, rng(b1, 0x80, 0x8F))), cont(b2), cont(b3), v(i + 4)))
        memo[i] = z3.simplify(z3.Or(*alts)); return memo[i]
    return v(0)


@reg('String::from_utf8', 'str::from_utf8', 'core::str::from_utf8', 'std::str::from_utf8', 'from_utf8')
def m_from_utf8(c, call, v):
    bs = list(seq_of(v))
    if c.branch(utf8_valid(bs)): return Ok(StrV(bs))
    if call.key == 'String::from_utf8':
        e = Opaque('FromUtf8Error'); e.bytes = bs           # String::from_utf8 hands the bytes back in its error
        return Err(e)
    return Err(Opaque('Utf8Error'))


@reg('String::from_utf8_lossy')
def m_from_utf8_lossy(c, call, v):
    bs = list(seq_of(v))
    if c.branch(utf8_valid(bs)): return EnumV('Cow', 'Borrowed', [StrV(bs)])
    raise Unsupported('from_utf8_lossy on invalid input (replacement not modelled)')


@reg('String::into_bytes', 'String::into_boxed_str', 'str::into_boxed_bytes')
def m_into_bytes(c, call, s): return VecV(deref(s).b)


@reg('String::push')
def m_string_push(c, call, s, ch):
    k = conc(ch)
    if k is None or k >= 0x80: raise Unsupported('String::push non-ASCII/symbolic char')
    deref(s).b.append(z3.BitVecVal(k, 8)); return UNIT


@reg('String::push_str')
def m_push_str(c, call, s, t): deref(s).b.extend(seq_of(t)); return UNIT


@reg('str::chars')
def m_chars(c, call, s): return Opaque('Chars', list(seq_of(s)))


@reg('Cow::into_owned', 'Cow::to_mut')
def m_cow_into_owned(c, call, v):
    v = deref(v); inner = deref(v.fields[0])
    return StrV(list(inner.b)) if isinstance(inner, StrV) else VecV(list(seq_of(inner)))


@reg('str::contains')
def m_str_contains(c, call, s, pat):
    bs = seq_of(s); p = deref(pat)
    if z3.is_bv(p):
        k = conc(p)
        if k is None or k >= 0x80: raise Unsupported('str::contains non-ascii char')
        return or_all([b == z3.BitVecVal(k, 8) for b in bs])
    pb = seq_of(p)
    if len(pb) == 0: return TRUE
    return or_all([and_all([bs[i + j] == pb[j] for j in range(len(pb))]) for i in range(len(bs) - len(pb) + 1)])


def _pat_bytes(p):
    p = deref(p)
    if z3.is_bv(p):
        k = conc(p)
        if k is None or k >= 0x80: raise Unsupported('non-ASCII / symbolic char pattern')
        return [z3.BitVecVal(k, 8)]
    return list(seq_of(p))


@reg('str::ends_with', 'slice::ends_with')
def m_ends_with(c, call, s, pat):
    bs = list(seq_of(s)); pb = _pat_bytes(pat)
    if len(pb) > len(bs): return FALSE
    return and_all([eq_term(x, y) for x, y in zip(bs[len(bs) - len(pb):], pb)]) if pb else TRUE


@reg('str::strip_suffix')
def m_strip_suffix(c, call, s, pat):
    sv = deref(s); bs = list(sv.b); pb = _pat_bytes(pat)
    if len(pb) > len(bs): return NONE()
    if c.branch(and_all([x == y for x, y in zip(bs[len(bs) - len(pb):], pb)]) if pb else TRUE): return Some(StrV(bs[:len(bs) - len(pb)]))
    return NONE()


@reg('str::find', 'str::rfind')
def m_str_find(c, call, s, pat):
    bs = list(seq_of(s)); pb = _pat_bytes(pat)
    idx = range(len(bs) - len(pb) + 1)
    for i in (idx if call.key == 'str::find' else reversed(idx)):
        if c.branch(and_all([bs[i + j] == pb[j] for j in range(len(pb))]) if pb else TRUE): return Some(B64(i))
    return NONE()


def _trim(c, bs, pred, start, end):
    i, j = 0, len(bs)
    if start:
        while i < j and c.branch(pred(bs[i])): i += 1
    if end:
        while j > i and c.branch(pred(bs[j - 1])): j -= 1
    return bs[i:j]


def _ws_ascii_only(c, bs):
    # str::trim* use Unicode White_Space; exact for ASCII input, other input is declined
    for b in bs:
        if not c.branch(z3.ULT(b, 0x80)): raise Unsupported('Unicode-aware trim on non-ASCII text')


@reg('str::trim', 'str::trim_start', 'str::trim_end')
def m_str_trim(c, call, s):
    bs = list(deref(s).b); _ws_ascii_only(c, bs)
    ws = lambda b: z3.Or(b == 0x20, z3.And(z3.UGE(b, 0x09), z3.ULE(b, 0x0d)))
    return StrV(_trim(c, bs, ws, not call.key.endswith('_end'), not call.key.endswith('_start')))


@reg('str::trim_end_matches', 'str::trim_matches')
def m_trim_matches(c, call, s, pat):
    bs = list(deref(s).b); pb = _pat_bytes(pat)
    if len(pb) != 1: raise Unsupported('trim pattern')
    return StrV(_trim(c, bs, lambda b: b == pb[0], call.key == 'str::trim_matches', True))


@reg('str::split_at')
def m_str_split_at(c, call, s, ix):
    bs = list(deref(s).b); k = conc(ix)
    if k is None: raise Unsupported('split_at(symbolic)')
    if k > len(bs) or (k < len(bs) and c.branch(z3.And(z3.UGE(bs[k], 0x80), z3.ULT(bs[k], 0xC0)))):
        raise PanicExc(c.cur_fn, 'index', 'byte index is not a char boundary')
    return Tup([StrV(bs[:k]), StrV(bs[k:])])


@reg('str::bytes')
def m_str_bytes(c, call, s): return IterV(list(deref(s).b))


@reg('str::to_lowercase', 'str::to_uppercase', 'str::to_ascii_lowercase', 'str::to_ascii_uppercase', 'slice::to_ascii_lowercase', 'slice::to_ascii_uppercase')
def m_str_case(c, call, s):
    v = deref(s); bs = list(seq_of(v))
    if 'ascii' not in call.key: _ws_ascii_only(c, bs)
    if call.key.endswith('lowercase'): out = [z3.If(z3.And(z3.UGE(b, 0x41), z3.ULE(b, 0x5a)), b | 0x20, b) for b in bs]
    else: out = [z3.If(z3.And(z3.UGE(b, 0x61), z3.ULE(b, 0x7a)), b & 0xdf, b) for b in bs]
    return StrV(out) if isinstance(v, StrV) else VecV(out)


@reg('str::is_char_boundary')
def m_is_char_boundary(c, call, s, ix):
    bs = list(deref(s).b); k = conc(ix)
    if k is None: raise Unsupported('is_char_boundary(symbolic)')
    if k == 0 or k == len(bs): return TRUE
    if k > len(bs): return FALSE
    return z3.Not(z3.And(z3.UGE(bs[k], 0x80), z3.ULT(bs[k], 0xC0)))


@reg('String::clear')
def m_string_clear(c, call, s): deref(s).b = []; return UNIT
@reg('String::truncate')
def m_string_truncate(c, call, s, n):
    k = conc(n)
    if k is None: raise Unsupported('truncate(symbolic)')
    v = deref(s); v.b = list(v.b)[:k]; return UNIT
@reg('String::insert_str')
def m_string_insert_str(c, call, s, ix, t):
    k = conc(ix)
    if k is None: raise Unsupported('insert_str(symbolic)')
    v = deref(s); b = list(v.b); v.b = b[:k] + list(seq_of(t)) + b[k:]; return UNIT


@regp(r'^(u8|char)::is_ascii(_alphabetic|_alphanumeric|_hexdigit|_whitespace|_uppercase|_lowercase|_punctuation|_graphic|_control)?$')
def m_is_ascii_class(c, call, v):
    v = deref(v); k = call.key.split('::')[1]
    rng = lambda lo, hi: z3.And(z3.UGE(v, lo), z3.ULE(v, hi))
    up, lo_, dg = rng(0x41, 0x5a), rng(0x61, 0x7a), rng(0x30, 0x39)
    return {'is_ascii': z3.ULT(v, 0x80), 'is_ascii_alphabetic': z3.Or(up, lo_), 'is_ascii_alphanumeric': z3.Or(up, lo_, dg),
            'is_ascii_hexdigit': z3.Or(dg, rng(0x41, 0x46), rng(0x61, 0x66)), 'is_ascii_whitespace': z3.Or(v == 0x20, v == 0x09, v == 0x0a, v == 0x0c, v == 0x0d),
            'is_ascii_uppercase': up, 'is_ascii_lowercase': lo_, 'is_ascii_punctuation': z3.Or(rng(0x21, 0x2f), rng(0x3a, 0x40), rng(0x5b, 0x60), rng(0x7b, 0x7e)),
            'is_ascii_graphic': rng(0x21, 0x7e), 'is_ascii_control': z3.Or(z3.ULT(v, 0x20), v == 0x7f)}[k]


@reg('u8::eq_ignore_ascii_case')
def m_u8_eq_ignore_case(c, call, a, b):
    low = lambda v: z3.If(z3.And(z3.UGE(v, 0x41), z3.ULE(v, 0x5a)), v | 0x20, v)
    return low(deref(a)) == low(deref(b))


@regp(r'^(u8|u16|u32|u64|usize|i8|i16|i32|i64|isize)::(saturating_add|saturating_sub)$')
def m_saturating(c, call, a, b):
    t, op = call.key.split('::'); n = a.size(); signed = t[0] == 'i'
    wide = (z3.SignExt if signed else z3.ZeroExt)
    x, y = wide(1, a), wide(1, b)
    r = x + y if op.endswith('add') else x - y
    lo = -(1 << (n - 1)) if signed else 0; hi = (1 << (n - 1)) - 1 if signed else (1 << n) - 1
    lov, hiv = z3.BitVecVal(lo, n + 1), z3.BitVecVal(hi, n + 1)
    cl = z3.If(r < lov, lov, z3.If(r > hiv, hiv, r)) if signed else z3.If(z3.Extract(n, n, r) == 1, (z3.BitVecVal(0, n + 1) if op.endswith('sub') else hiv), r)
    return z3.simplify(z3.Extract(n - 1, 0, cl))


@regp(r'^(u8|u16|u32|u64|usize|i8|i16|i32|i64|isize)::(to_le_bytes|from_le_bytes|swap_bytes)$')
def m_le_bytes(c, call, v):
    op = call.key.split('::')[1]
    if op == 'from_le_bytes':
        bs = list(items_of(deref(v))); return z3.simplify(z3.Concat(*reversed(bs))) if len(bs) > 1 else bs[0]
    n = v.size() // 8
    le = [z3.simplify(z3.Extract(8 * i + 7, 8 * i, v)) for i in range(n)]
    return ArrV(le) if op == 'to_le_bytes' else (z3.simplify(z3.Concat(*le)) if n > 1 else v)


@reg('str::starts_with')
def m_str_starts_with(c, call, s, pat):
    bs = seq_of(s); p = deref(pat)
    pb = [z3.BitVecVal(conc(p), 8)] if z3.is_bv(p) else seq_of(p)
    if len(pb) > len(bs): return FALSE
    return and_all([x == y for x, y in zip(bs, pb)])


def split_positions(c, bs, sepbyte):
    """fork on which positions equal the separator; returns list of concrete positions"""
    pos = []
    for i, b in enumerate(bs):
        if c.branch(b == z3.BitVecVal(sepbyte, 8)): pos.append(i)
    return pos


@reg('str::split', 'str::splitn')
def m_str_split(c, call, s, *a):
    s = deref(s)
    if call.key == 'str::splitn':
        n = conc(a[0]); pat = deref(a[1])
    else:
        n = None; pat = deref(a[0])
    k = conc(pat)
    if k is None or k >= 0x80: raise Unsupported('split pattern')
    bs = s.b; pos = split_positions(c, bs, k)
    parts = []; start = 0
    for p in pos:
        if n is not None and len(parts) == n - 1: break
        parts.append(StrV(bs[start:p])); start = p + 1
    parts.append(StrV(bs[start:]))
    return IterV(parts)


@reg('str::split_once', 'str::rsplit_once')
def m_str_split_once(c, call, s, pat):
    s = deref(s); k = conc(deref(pat))
    if k is None or k >= 0x80: raise Unsupported('split_once pattern')
    bs = s.b; pos = split_positions(c, bs, k)
    if not pos: return NONE()
    p = pos[0] if call.key == 'str::split_once' else pos[-1]
    return Some(Tup([StrV(bs[:p]), StrV(bs[p + 1:])]))


def _is_ascii_ws(b):
    return z3.Or(b == 0x20, b == 0x09, b == 0x0a, b == 0x0c, b == 0x0d)


@reg('slice::trim_ascii', 'slice::trim_ascii_start', 'slice::trim_ascii_end', 'str::trim_ascii', 'str::trim_ascii_start', 'str::trim_ascii_end')
def m_trim_ascii(c, call, s):
    v = deref(s); bs = list(seq_of(v))
    i, j = 0, len(bs)
    if not call.key.endswith('_end'):
        while i < j and c.branch(_is_ascii_ws(bs[i])): i += 1
    if not call.key.endswith('_start'):
        while j > i and c.branch(_is_ascii_ws(bs[j - 1])): j -= 1
    return StrV(bs[i:j]) if isinstance(v, StrV) else SliceV(bs[i:j])


@reg('FromUtf8Error::into_bytes')
def m_fromutf8err_into_bytes(c, call, e):
    e = deref(e)
    return VecV(list(e.bytes))


@reg('FromUtf8Error::utf8_error')
def m_fromutf8err_err(c, call, e): return Opaque('Utf8Error')


@reg('i32::from_be_bytes', 'u32::from_be_bytes', 'u64::from_be_bytes', 'i64::from_be_bytes', 'u16::from_be_bytes', 'usize::from_be_bytes')
def m_from_be_bytes(c, call, arr):
    bs = list(items_of(deref(arr)))
    return z3.simplify(z3.Concat(*bs)) if len(bs) > 1 else bs[0]


@reg('str::trim_start_matches')
def m_trim_start_matches(c, call, s, pat):
    s = deref(s); k = conc(deref(pat))
    if k is None or k >= 0x80: raise Unsupported('trim pattern')
    i = 0
    while i < len(s.b) and c.branch(s.b[i] == z3.BitVecVal(k, 8)): i += 1
    return StrV(s.b[i:])


@reg('str::strip_prefix')
def m_strip_prefix(c, call, s, pat):
    s = deref(s); p = deref(pat)
    pb = [z3.BitVecVal(conc(p), 8)] if z3.is_bv(p) else seq_of(p)
    if len(pb) > len(s.b): return NONE()
    if c.branch(and_all([x == y for x, y in zip(s.b, pb)])): return Some(StrV(s.b[len(pb):]))
    return NONE()


@reg('str::eq_ignore_ascii_case')
def m_eq_ignore_case(c, call, a, b):
    x = seq_of(a); y = seq_of(b)
    if len(x) != len(y): return FALSE
    low = lambda v: z3.If(z3.And(z3.UGE(v, 0x41), z3.ULE(v, 0x5a)), v | 0x20, v)
    return and_all([low(p) == low(q) for p, q in zip(x, y)])


# ---------------------------------------------------------------------------- iterators

def it_next(c, it):
    it = deref(it)
    if isinstance(it, IterV):
        if it.i < len(it.items):
            it.i += 1; return Some(it.items[it.i - 1])
        return NONE()
    if isinstance(it, LazyIt):
        k = it.kind
        while True:
            r = it_next(c, it.inner)
            if r.variant == 'None': return r
            x = r.fields[0]
            if k == 'map': return Some(c.callf(it.f, [x]))
            if k == 'filter_map':
                o = c.callf(it.f, [x])
                if o.variant == 'Some': return o
                continue
            if k == 'filter':
                if c.branch(c.callf(it.f, [x])): return Some(x)
                continue
            if k in ('cloned', 'copied'): return Some(clone_val(x))
            if k == 'enumerate':
                it.n += 1; return Some(Tup([B64(it.n - 1), x]))
            if k == 'zip':
                r2 = it_next(c, it.other)
                if r2.variant == 'None': return r2
                return Some(Tup([x, r2.fields[0]]))
            if k == 'take_while':
                if c.branch(c.callf(it.f, [x])): return Some(x)
                return NONE()
            if k == 'map_while':
                return c.callf(it.f, [x])
            if k == 'skip_while':
                if it.n == 0 and c.branch(c.callf(it.f, [x])): continue
                it.n = 1; return Some(x)
            if k == 'inspect':
                c.callf(it.f, [x]); return Some(x)
            raise Unsupported('lazy iterator ' + k)
    if isinstance(it, Opaque) and it.t == 'Chars':
        bs = it.info
        if not bs: return NONE()
        b0 = bs[0]
        if c.branch(z3.ULT(b0, 0x80)):
            it.info = bs[1:]; return Some(z3.ZeroExt(24, b0))
        # multi-byte: decode length only (value left as fresh char with the right range)
        n = 2 if c.branch(z3.ULT(b0, 0xE0)) else (3 if c.branch(z3.ULT(b0, 0xF0)) else 4)
        ch = c.fresh('char', 32); c.assume(z3.UGE(ch, 0x80)); it.info = bs[n:]; return Some(ch)
    if isinstance(it, StructV) and it.ty == 'Range':
        s, e = it.fields['start'], it.fields['end']
        lt = z3.ULT(s, e)
        if c.branch(z3.simplify(lt)):
            it.fields['start'] = z3.simplify(s + 1); return Some(s)
        return NONE()
    raise Unsupported('it_next ' + type(it).__name__)


def collect_list(c, it):
    out = []
    while True:
        r = it_next(c, it)
        if r.variant == 'None': return out
        out.append(r.fields[0])


@reg('IntoIterator::into_iter')
def m_into_iter(c, call, v):
    v0 = deref(v)
    if isinstance(v0, (IterV, LazyIt)) or (isinstance(v0, Opaque) and v0.t == 'Chars'): return v0
    if isinstance(v0, StructV) and v0.ty == 'Range': return v0
    if isinstance(v0, VecV): return IterV(v0.items)
    if isinstance(v0, (SliceV, ArrV)): return IterV(seq_of(v0))
    if isinstance(v0, SetV): return set_iter(c, v0)
    if isinstance(v0, MapV): return IterV([Tup([k, x]) for k, x in v0.items])
    if isinstance(v0, EnumV) and v0.ty == 'Option': return IterV(list(v0.fields))
    raise Unsupported('into_iter on ' + type(v0).__name__)


def set_iter(c, s):
    """iteration order of a hash container is unspecified: explore every rotation start + order
    as an explicit nondeterministic permutation (bounded: all permutations up to 3 elements)."""
    import itertools
    items = list(s.items)
    if len(items) <= 1: return IterV(items)
    perms = list(itertools.permutations(range(len(items))))
    k = c.choose(len(perms), 'hashorder')
    return IterV([items[i] for i in perms[k]])


@reg('Iterator::next')
def m_iter_next(c, call, it): return it_next(c, it)
@reg('Iterator::map')
def m_it_map(c, call, it, f): return LazyIt('map', deref(it), f)
@reg('Iterator::filter_map')
def m_it_filter_map(c, call, it, f): return LazyIt('filter_map', deref(it), f)
@reg('Iterator::filter')
def m_it_filter(c, call, it, f): return LazyIt('filter', deref(it), f)
@reg('Iterator::cloned', 'Iterator::copied')
def m_it_cloned(c, call, it): return LazyIt('cloned', deref(it))
@reg('Iterator::enumerate')
def m_it_enumerate(c, call, it): return LazyIt('enumerate', deref(it))
@reg('Iterator::zip')
def m_it_zip(c, call, it, o): return LazyIt('zip', deref(it), other=m_into_iter(c, call, o))
@reg('Iterator::take_while')
def m_it_take_while(c, call, it, f): return LazyIt('take_while', deref(it), f)
@reg('Iterator::rev')
def m_it_rev(c, call, it):
    return IterV(list(reversed(collect_list(c, deref(it)))))
@reg('Iterator::map_while')
def m_it_map_while(c, call, it, f): return LazyIt('map_while', deref(it), f)
@reg('Iterator::skip_while')
def m_it_skip_while(c, call, it, f): return LazyIt('skip_while', deref(it), f)
@reg('Iterator::inspect')
def m_it_inspect(c, call, it, f): return LazyIt('inspect', deref(it), f)
@reg('Iterator::skip')
def m_it_skip(c, call, it, n):
    k = conc(n)
    if k is None: raise Unsupported('skip(symbolic)')
    xs = collect_list(c, deref(it)); return IterV(xs[k:])
@reg('Iterator::take')
def m_it_take(c, call, it, n):
    k = conc(n)
    if k is None: raise Unsupported('take(symbolic)')
    out = []
    for _ in range(k):
        r = it_next(c, deref(it))
        if r.variant == 'None': break
        out.append(r.fields[0])
    return IterV(out)
@reg('Iterator::step_by')
def m_it_step_by(c, call, it, n):
    k = conc(n)
    if not k: raise Unsupported('step_by(symbolic or 0)')
    return IterV(collect_list(c, deref(it))[::k])
@reg('Iterator::chain')
def m_it_chain(c, call, it, o):
    return IterV(collect_list(c, deref(it)) + collect_list(c, m_into_iter(c, call, o)))
@reg('Iterator::flat_map')
def m_it_flat_map(c, call, it, f):
    out = []
    for x in collect_list(c, deref(it)): out += collect_list(c, m_into_iter(c, call, c.callf(f, [x])))
    return IterV(out)
@reg('Iterator::flatten')
def m_it_flatten(c, call, it):
    out = []
    for x in collect_list(c, deref(it)): out += collect_list(c, m_into_iter(c, call, x))
    return IterV(out)
@reg('Iterator::find_map')
def m_it_find_map(c, call, it, f):
    while True:
        r = it_next(c, deref(it))
        if r.variant == 'None': return r
        o = c.callf(f, [r.fields[0]])
        if o.variant == 'Some': return o
@reg('Iterator::sum')
def m_it_sum(c, call, it):
    xs = collect_list(c, deref(it))
    if not xs: raise Unsupported('sum of an empty iterator (width unknown)')
    acc = deref(xs[0])
    for x in xs[1:]: acc = acc + deref(x)
    return z3.simplify(acc)
@reg('Iterator::max', 'Iterator::min')
def m_it_minmax(c, call, it):
    xs = [deref(x) for x in collect_list(c, deref(it))]
    if not xs: return NONE()
    if not all(z3.is_bv(x) for x in xs): raise Unsupported('min/max over non-scalars')
    signed = bool(re.search(r'\bi(8|16|32|64|size)\b', call.callee))
    acc = xs[0]
    for x in xs[1:]:
        if call.key.endswith('max'): acc = z3.If((x >= acc) if signed else z3.UGE(x, acc), x, acc)
        else: acc = z3.If((x < acc) if signed else z3.ULT(x, acc), x, acc)
    return Some(z3.simplify(acc))
@reg('Iterator::unzip')
def m_it_unzip(c, call, it):
    xs = collect_list(c, deref(it))
    return Tup([VecV([deref(x)[0] for x in xs]), VecV([deref(x)[1] for x in xs])])
@reg('Iterator::partition')
def m_it_partition(c, call, it, f):
    a, b = [], []
    for x in collect_list(c, deref(it)): (a if c.branch(c.callf(f, [x])) else b).append(x)
    return Tup([VecV(a), VecV(b)])
@reg('Iterator::rposition')
def m_it_rposition(c, call, it, f):
    xs = collect_list(c, deref(it))
    for i in range(len(xs) - 1, -1, -1):
        if c.branch(c.callf(f, [xs[i]])): return Some(B64(i))
    return NONE()
@reg('Iterator::peekable', 'Iterator::by_ref', 'Iterator::fuse')
def m_it_id(c, call, it): return it


@reg('Iterator::collect', 'FromIterator::from_iter')
def m_it_collect(c, call, it):
    callee = call.callee
    items = collect_list(c, deref(it))
    m = re.search(r'::collect::<(.*)>$', callee, re.S) or re.search(r'^<(.*) as FromIterator', callee, re.S)
    tgt = last_seg(strip_angle(m.group(1)).strip()) if m else 'Vec'
    if tgt == 'Vec': return VecV(items)
    if tgt == 'String':
        out = []
        for x in items:
            out.extend(seq_of(x) if not z3.is_bv(deref(x)) else [z3.Extract(7, 0, x)])
        return StrV(out)
    if tgt == 'HashSet':
        s = SetV()
        for x in items: set_insert(c, s, x)
        return s
    if tgt == 'HashMap':
        mp = MapV()
        for x in items: map_insert(c, mp, x[0], x[1])
        return mp
    if tgt == 'Result':
        out = []
        for x in items:
            if x.variant == 'Err': return x
            out.append(x.fields[0])
        return Ok(VecV(out))
    if tgt == 'Option':
        out = []
        for x in items:
            if x.variant == 'None': return x
            out.append(x.fields[0])
        return Some(VecV(out))
    raise Unsupported('collect into ' + tgt)


@reg('Iterator::fold')
def m_fold(c, call, it, init, f):
    acc = init
    for x in collect_list(c, deref(it)):
        acc = c.callf(f, [acc, x])
    return acc


@reg('Iterator::all')
def m_all(c, call, it, f):
    for x in collect_list(c, deref(it)):
        if not c.branch(c.callf(f, [x])): return FALSE
    return TRUE


@reg('Iterator::any')
def m_any(c, call, it, f):
    for x in collect_list(c, deref(it)):
        if c.branch(c.callf(f, [x])): return TRUE
    return FALSE


@reg('Iterator::for_each')
def m_for_each(c, call, it, f):
    for x in collect_list(c, deref(it)): c.callf(f, [x])
    return UNIT


@reg('Iterator::count')
def m_count(c, call, it): return B64(len(collect_list(c, deref(it))))


@reg('Iterator::position')
def m_position(c, call, it, f):
    for i, x in enumerate(collect_list(c, deref(it))):
        if c.branch(c.callf(f, [x])): return Some(B64(i))
    return NONE()


@reg('Iterator::find')
def m_find(c, call, it, f):
    for x in collect_list(c, deref(it)):
        if c.branch(c.callf(f, [x])): return Some(x)
    return NONE()


@reg('Iterator::last')
def m_it_last(c, call, it):
    xs = collect_list(c, deref(it)); return Some(xs[-1]) if xs else NONE()


@reg('Iterator::nth')
def m_it_nth(c, call, it, n):
    k = conc(n); r = NONE()
    for _ in range(k + 1): r = it_next(c, it)
    return r


# ---------------------------------------------------------------------------- hash containers

def key_eq(a, b):
    return eq_term(a, b)


def map_get(c, m, k):
    for j, (kk, vv) in enumerate(m.items):
        if c.branch(key_eq(kk, k)): return j
    return None


def map_insert(c, m, k, v):
    j = map_get(c, m, k)
    if j is not None:
        old = m.items[j][1]; m.items[j] = (m.items[j][0], v); return Some(old)
    m.items.append((k, v)); return NONE()


def set_insert(c, s, k):
    if isinstance(s, ZSet):
        old = z3.Select(s.arr, k); s.arr = z3.Store(s.arr, k, TRUE); return z3.Not(old)
    for kk in s.items:
        if c.branch(key_eq_dyn(c, kk, k)): return FALSE
    s.items.append(k); return TRUE


@reg('HashMap::new', 'HashMap::with_capacity')
def m_hm_new(c, call, *a): return MapV()
@reg('HashSet::new', 'HashSet::with_capacity')
def m_hs_new(c, call, *a): return SetV()
@reg('HashMap::insert')
def m_hm_insert(c, call, m, k, v): return map_insert(c, deref(m), k, v)
@reg('HashMap::get', 'HashMap::get_mut')
def m_hm_get(c, call, m, k):
    m = deref(m); j = map_get(c, m, deref(k))
    if j is None: return NONE()
    if call.key.endswith('get_mut'):
        return Some(LRef(lambda: m.items[j][1], lambda v: m.items.__setitem__(j, (m.items[j][0], v))))
    return Some(m.items[j][1])
@reg('HashMap::remove')
def m_hm_remove(c, call, m, k):
    m = deref(m); j = map_get(c, m, deref(k))
    if j is None: return NONE()
    return Some(m.items.pop(j)[1])
@reg('HashMap::contains_key')
def m_hm_contains(c, call, m, k): return BOOL(map_get(c, deref(m), deref(k)) is not None)
@reg('HashMap::len', 'HashSet::len')
def m_hm_len(c, call, m): return B64(len(deref(m).items))
@reg('HashMap::is_empty', 'HashSet::is_empty')
def m_hm_is_empty(c, call, m): return BOOL(len(deref(m).items) == 0)


class EntryV:
    def __init__(self, m, k): self.m = m; self.k = k


@reg('HashMap::entry')
def m_hm_entry(c, call, m, k): return EntryV(deref(m), k)
@reg('Entry::or_insert_with', 'Entry::or_insert', 'Entry::or_default')
def m_or_insert_with(c, call, e, f=None):
    j = map_get(c, e.m, e.k)
    if j is None:
        v = c.callf(f, []) if call.key.endswith('_with') else (f if f is not None else VecV())
        e.m.items.append((e.k, v)); j = len(e.m.items) - 1
    m = e.m
    return LRef(lambda: m.items[j][1], lambda v: m.items.__setitem__(j, (m.items[j][0], v)))


@reg('HashSet::insert')
def m_hs_insert(c, call, s, k): return set_insert(c, deref(s), k)


@reg('HashSet::contains')
def m_hs_contains(c, call, s, k):
    s = deref(s); k = deref(k)
    if isinstance(s, ZSet):
        r = z3.Select(s.arr, k)
        s.calls = getattr(s, 'calls', 0) + 1
        if s.hits >= s.K:
            c.assume(z3.Not(r)); c.cuts.append(f'in-use set: at most {s.K} consecutive occupied successors (assume)')
            return FALSE
        s.hits += 1; return r
    for kk in s.items:
        if c.branch(key_eq(kk, k)): return TRUE
    return FALSE


@reg('HashSet::remove')
def m_hs_remove(c, call, s, k):
    s = deref(s); k = deref(k)
    if isinstance(s, ZSet):
        old = z3.Select(s.arr, k); s.arr = z3.Store(s.arr, k, FALSE); s.removed.append(k); return old
    for j, kk in enumerate(s.items):
        if c.branch(key_eq(kk, k)):
            s.items.pop(j); return TRUE
    return FALSE


@reg('HashSet::iter', 'HashMap::iter', 'HashMap::keys', 'HashMap::values')
def m_hs_iter(c, call, s):
    s = deref(s)
    if isinstance(s, SetV): return set_iter(c, s)
    if call.key.endswith('keys'): return IterV([k for k, _ in s.items])
    if call.key.endswith('values'): return IterV([v for _, v in s.items])
    return IterV([Tup([k, v]) for k, v in s.items])


@reg('HashMap::drain', 'HashSet::drain')
def m_hm_drain(c, call, m):
    """empties the container; the drained pairs come in declaration order (the order of a hash container is
    unspecified; lanes that depend on it must not rely on this model)"""
    m = deref(m)
    items = list(m.items); m.items = []
    if isinstance(m, SetV): return IterV(items)
    return IterV([Tup([k, v]) for k, v in items])


@reg('Mutex::lock', 'RwLock::read', 'RwLock::write')
def m_lock(c, call, m):
    m = deref(m)
    return Ok(m[0] if isinstance(m, Tup) and len(m) == 1 else m)


@reg('Arc::clone', 'Rc::clone')
def m_arc_clone(c, call, a): return deref(a)


# ---------------------------------------------------------------------------- bytes / io

@reg('BytesMut::new', 'BytesMut::with_capacity')
def m_bm_new(c, call, *a): return BytesMutV([])
@reg('Buf::advance')
def m_advance(c, call, b, n):
    b = deref(b); k = conc(n)
    if k is None:
        k = c.choose_int(n, 0, len(b.items) - b.lo)
    if k is None or k > len(b.items) - b.lo: raise PanicExc(c.cur_fn, 'advance', 'cannot advance past remaining')
    b.lo += k; return UNIT
@reg('BytesMut::extend_from_slice', 'BufMut::put_slice')
def m_bm_extend(c, call, b, s): deref(b).items.extend(seq_of(s)); return UNIT


@reg('Write::write', 'Write::write_all')
def m_write(c, call, w, buf):
    w = deref(w)
    tgt = w.items if isinstance(w, (VecV, BytesMutV)) else None
    if tgt is None: raise Unsupported('Write on ' + type(w).__name__)
    data = seq_of(buf); tgt.extend(data)
    return Ok(B64(len(data))) if call.key == 'Write::write' else Ok(UNIT)


@reg('std::io::Error::new', 'Error::new', 'io::Error::new')
def m_ioerr(c, call, kind, msg=None): return Opaque('io::Error', str_text(deref(msg)) if isinstance(deref(msg), StrV) else None)


# ---------------------------------------------------------------------------- fmt / log (empty bodies)

class FmtV(StrV):
    """result of format!(): the literal pieces and the displayed arguments, kept structured"""
    def __init__(self, parts):
        StrV.__init__(self, [z3.BitVecVal(63, 8)]); self.parts = parts


@regp(r'^core::fmt::rt::Argument::<?.*new_|^Argument::new_|fmt::rt::Argument')
def m_fmtarg(c, call, *a): return Opaque('fmtarg', deref(a[0]) if a else None)


@regp(r'(^|::)Arguments(::<.*>)?::(new|new_const|new_v1|new_v1_formatted|from_str|from_str_nonconst)$')
def m_fmtargs(c, call, *a):
    txt = None; args = []
    if a:
        p = deref(a[0])
        try:
            if isinstance(p, StrV): txt = str_text(p)
            elif isinstance(p, (list, SliceV, VecV)) and all(isinstance(deref(x), StrV) for x in seq_of(p)):
                txt = '{}'.join(str_text(deref(x)) for x in seq_of(p))
            elif isinstance(p, (list, SliceV, VecV)):
                # compact template: n<0x80 = literal of n bytes, 0xC0 = next argument, 0 = end
                raw = [conc(x) for x in seq_of(p)]
                tmpl = []; i = 0
                while i < len(raw) and raw[i] not in (0, None):
                    b = raw[i]
                    if b == 0xC0: tmpl.append(('arg',)); i += 1
                    elif b < 0x80: tmpl.append(('lit', bytes(raw[i + 1:i + 1 + b]))); i += 1 + b
                    else: tmpl = None; break
                txt = tmpl
        except Unsupported:
            txt = None
        if len(a) > 1:
            try:
                args = [deref(x).info for x in seq_of(a[1]) if isinstance(deref(x), Opaque)]
            except Unsupported:
                args = []
    o = Opaque('fmtargs', txt); o.args = args
    return o


@regp(r'^log::__private_api::|^log::max_level$|^max_level$|^__private_api::')
def m_log(c, call, *a):
    if call.callee.endswith('max_level'): return Opaque('lvl')
    return UNIT


@reg('PartialOrd::le', 'PartialOrd::lt', 'PartialOrd::ge', 'PartialOrd::gt')
def m_partial_ord(c, call, a, b):
    a = deref(a); b = deref(b)
    if isinstance(a, (Opaque, EnumV, StructV)) or isinstance(b, (Opaque, EnumV, StructV)):
        return FALSE      # log level comparison: logging disabled
    raise Unsupported('PartialOrd on ' + type(a).__name__)


@reg('std::fmt::format', 'alloc::fmt::format', 'fmt::format', 'format')
def m_format(c, call, *a):
    fa = deref(a[0]) if a else None
    tmpl = getattr(fa, 'info', None); args = list(getattr(fa, 'args', []))
    items = None
    if isinstance(tmpl, list):
        items = []
        for t in tmpl:
            if t[0] == 'lit': items.append(('lit', t[1]))
            elif args: items.append(('arg', args.pop(0)))
            else: items = None; break
    return FmtV({'template': tmpl, 'items': items})


@regp(r'^<.* as (std::fmt::)?(Display|Debug)>::fmt$|Formatter::|^std::fmt::Write::|DebugStruct|DebugTuple')
def m_fmt_fmt(c, call, *a): return Ok(UNIT)


@reg('lber::Err::is_incomplete', 'nom::Err::is_incomplete', 'Err::is_incomplete')
def m_is_incomplete(c, call, e): return BOOL(deref(e).variant == 'Incomplete')


@reg('ParseError::from_error_kind')
def m_from_error_kind(c, call, inp, kind): return StructV('Error', {'input': inp, 'code': kind})


@reg('std::hint::black_box', 'std::convert::identity', 'core::convert::identity', 'must_use', 'std::hint::must_use', 'core::hint::must_use')
def m_identity(c, call, x): return x


# ---------------------------------------------------------------------------- percent-encoding / url (C18, C20)

def _is_hex(ch): return z3.Or(z3.And(z3.UGE(ch, 0x30), z3.ULE(ch, 0x39)), z3.And(z3.UGE(ch, 0x41), z3.ULE(ch, 0x46)), z3.And(z3.UGE(ch, 0x61), z3.ULE(ch, 0x66)))
def _hexval(ch): return z3.If(z3.ULE(ch, 0x39), ch - 0x30, (ch & 0x0f) + 9)


def percent_decode_bytes(c, bs):
    """percent_encoding::percent_decode: '%' + two hex digits -> byte, everything else verbatim"""
    out = []; i = 0; n = len(bs); changed = False
    while i < n:
        b = bs[i]
        if i + 2 < n + 0 and i + 2 <= n - 1 and c.branch(b == 0x25) and c.branch(z3.And(_is_hex(bs[i + 1]), _is_hex(bs[i + 2]))):
            out.append(z3.simplify((_hexval(bs[i + 1]) << 4) | _hexval(bs[i + 2]))); i += 3; changed = True
        else:
            out.append(b); i += 1
    return out, changed


@reg('percent_decode_str', 'percent_encoding::percent_decode_str', 'percent_decode', 'percent_encoding::percent_decode')
def m_percent_decode_str(c, call, s): return Opaque('PercentDecode', list(seq_of(s)))


@reg('PercentDecode::decode_utf8', 'PercentDecode::decode_utf8_lossy')
def m_pd_decode_utf8(c, call, pd):
    bs, changed = percent_decode_bytes(c, deref(pd).info)
    ok = c.branch(utf8_valid(bs))
    cow = EnumV('Cow', 'Owned' if changed else 'Borrowed', [StrV(bs)])
    if call.key.endswith('lossy'):
        if not ok:
            # U+FFFD replacement is not modelled: the content of a lossily decoded string is left unconstrained-but-marked
            lossy = StrV(bs); lossy.lossy = True
            return EnumV('Cow', 'Owned', [lossy])
        return cow
    return Ok(cow) if ok else Err(Opaque('Utf8Error'))


def key_eq_dyn(c, a, b):
    """equality of hash-container keys: a user-defined PartialEq (MIR) wins over structural equality"""
    a0 = deref(a); ty = getattr(a0, 'ty', None)
    if ty and ty not in ('Option', 'Result', 'Cow'):
        f = c.prog.alias.get(f'<{ty} as PartialEq>::eq')
        if f is not None:
            return c.run_compiled(f, [a, b])
    return eq_term(a, b)


# ---------------------------------------------------------------------------- further integer / slice helpers

@regp(r'^(i8|i16|i32|i64|isize)::(unsigned_abs|abs|wrapping_abs)$')
def m_abs(c, call, v):
    neg = v < 0
    if call.key.endswith('::abs') and c.dev:
        mn = z3.BitVecVal(1 << (v.size() - 1), v.size())
        if c.branch(v == mn): raise PanicExc(c.cur_fn, 'arith', 'attempt to negate with overflow')
    return z3.simplify(z3.If(neg, -v, v))


@regp(r'^(u8|u16|u32|u64|usize|i8|i16|i32|i64|isize)::(wrapping_add|wrapping_sub|wrapping_mul)$')
def m_wrapping(c, call, a, b):
    op = call.key.split('_')[-1]
    return {'add': a + b, 'sub': a - b, 'mul': a * b}[op]


@regp(r'^(u8|u16|u32|u64|usize|i8|i16|i32|i64|isize)::(checked_add|checked_sub|checked_mul)$')
def m_checked(c, call, a, b):
    op = call.key.split('_')[-1]; signed = INT[call.key.split('::')[0]][1]
    if op == 'add':
        ok = z3.And(z3.BVAddNoOverflow(a, b, signed), z3.BVAddNoUnderflow(a, b)) if signed else z3.BVAddNoOverflow(a, b, False); r = a + b
    elif op == 'sub':
        ok = z3.And(z3.BVSubNoOverflow(a, b), z3.BVSubNoUnderflow(a, b, True)) if signed else z3.BVSubNoUnderflow(a, b, False); r = a - b
    else:
        ok = z3.And(z3.BVMulNoOverflow(a, b, signed), z3.BVMulNoUnderflow(a, b)) if signed else z3.BVMulNoOverflow(a, b, False); r = a * b
    return Some(r) if c.branch(z3.simplify(ok)) else NONE()


@regp(r'^(u8|u16|u32|u64|usize|i8|i16|i32|i64|isize)::(min|max)$|^(std::cmp|core::cmp|cmp)::(min|max)$|^Ord::(min|max)$')
def m_minmax(c, call, a, b):
    if not z3.is_bv(a): raise Unsupported('min/max on ' + type(a).__name__)
    t = call.key.split('::')[0]; signed = INT.get(t, (0, False))[1]
    lt = (a < b) if signed else z3.ULT(a, b)
    return z3.If(lt, a, b) if call.key.endswith('min') else z3.If(lt, b, a)


@reg('slice::windows')
def m_windows(c, call, v, n):
    s = seq_of(v); k = conc(n)
    if k is None or k == 0: raise Unsupported('windows size')
    return IterV([SliceV(s, i, i + k) for i in range(max(0, len(s) - k + 1))])


@reg('slice::chunks')
def m_chunks(c, call, v, n):
    s = seq_of(v); k = conc(n)
    if k is None or k == 0: raise Unsupported('chunk size')
    return IterV([SliceV(s, i, min(i + k, len(s))) for i in range(0, len(s), k)])


@reg('NonZero::get', 'NonZeroUsize::get')
def m_nonzero_get(c, call, v):
    v = deref(v)
    return v.nth(0) if isinstance(v, StructV) else (v[0] if isinstance(v, Tup) else v)


@reg('BytesMut::reserve', 'Vec::reserve_exact')
def m_bm_reserve(c, call, b, n):
    # growing by an attacker-controlled amount: beyond isize::MAX the allocation path panics ("capacity overflow")
    if not c.branch(z3.ULE(n, z3.BitVecVal((1 << 62), 64))):
        raise PanicExc(c.cur_fn, 'panic', 'capacity overflow')
    return UNIT
