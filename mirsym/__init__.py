"""mirsym: symbolic execution of rustc MIR on z3 (engine B of /verif)."""
