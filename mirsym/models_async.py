"""Lanes B2/B3: coroutine plumbing and environment stubs for tokio / futures.

A coroutine (async fn / async block) is a CoroV; polling it runs its MIR resume function.
Foreign futures (channels, timers, sockets, codec sink/stream) are EnvFut objects whose poll is
answered by an *environment* the harness installs on the context: ctx.env[kind](ctx, fut) ->
value (Ready) | PENDING.  Channel endpoints are Tok objects recording what was sent."""
import z3
from .values import *
from .models import M, reg, regp, B64, BOOL, TRUE, FALSE, seq_of, clone_val

PENDING = object()


class Tok:
    """channel endpoint / opaque runtime handle"""
    def __init__(self, kind, name=''):
        self.kind = kind; self.name = name; self.sent = []; self.closed = False; self.peer = None; self.dropped = False

    def __repr__(self):
        return f'Tok({self.kind}:{self.name},sent={len(self.sent)})'

    def clone(self):
        return self          # sender clones share the channel

    def on_drop(self, c):
        self.dropped = True


class EnvFut:
    def __init__(self, kind, **kw):
        self.kind = kind; self.__dict__.update(kw)

    def __repr__(self):
        return f'EnvFut({self.kind})'


def channel(name):
    tx = Tok('tx', name); rx = Tok('rx', name); tx.peer = rx; rx.peer = tx
    rx.queue = []
    return tx, rx


def poll_value(c, fut, cx):
    """poll anything future-like once -> Poll value"""
    f = deref(fut)
    while isinstance(f, Tup) and len(f) == 1:
        f = deref(f[0])
    if isinstance(f, CoroV):
        if f.state == 1:
            raise PanicExc(f.body, 'panic', '`async fn` resumed after completion')
        return c.run_fn(f.body, [Tup([f]), cx])
    if isinstance(f, EnvFut):
        h = c.env.get(f.kind)
        if h is None:
            raise Unsupported('no environment stub for awaited future ' + f.kind)
        r = h(c, f)
        if r is PENDING:
            return EnumV('Poll', 'Pending')
        return EnumV('Poll', 'Ready', [r])
    if isinstance(f, Tok) and f.kind == 'rx':
        # awaiting a oneshot receiver
        h = c.env.get('recv_oneshot')
        if h is None:
            raise Unsupported('no environment stub for awaited oneshot receiver')
        r = h(c, EnvFut('recv_oneshot', rx=f))
        return EnumV('Poll', 'Pending') if r is PENDING else EnumV('Poll', 'Ready', [r])
    if hasattr(f, 'poll'):
        return f.poll(c, cx)
    raise Unsupported('poll of ' + type(f).__name__)


@reg('Future::poll')
def m_future_poll(c, call, pin, cx):
    return poll_value(c, pin, cx)


@reg('IntoFuture::into_future')
def m_into_future(c, call, x): return x


@reg('std::future::poll_fn', 'poll_fn', 'future::poll_fn', 'core::future::poll_fn')
def m_poll_fn(c, call, clo):
    class PollFn:
        def poll(self, c, cx):
            return c.callf(clo, [cx])
    return PollFn()


@reg('tokio::macros::support::poll_budget_available', 'support::poll_budget_available', 'poll_budget_available')
def m_budget(c, call, cx): return EnumV('Poll', 'Ready', [UNIT])


@reg('tokio::macros::support::thread_rng_n', 'support::thread_rng_n', 'thread_rng_n')
def m_rng(c, call, n):
    v = c.fresh('select_start', 32); c.assume(z3.ULT(v, n)); return v


@reg('Poll::is_pending')
def m_is_pending(c, call, p): return BOOL(deref(p).variant == 'Pending')
@reg('Poll::is_ready')
def m_is_ready(c, call, p): return BOOL(deref(p).variant == 'Ready')


# ---- channels

@reg('tokio::sync::mpsc::unbounded_channel', 'mpsc::unbounded_channel', 'unbounded_channel')
def m_unbounded_channel(c, call):
    c.nchan = getattr(c, 'nchan', 0) + 1
    tx, rx = channel(f'mpsc{c.nchan}')
    c.channels = getattr(c, 'channels', []) + [(tx, rx)]
    return Tup([tx, rx])


@reg('tokio::sync::oneshot::channel', 'oneshot::channel')
def m_oneshot_channel(c, call):
    c.nchan = getattr(c, 'nchan', 0) + 1
    tx, rx = channel(f'oneshot{c.nchan}')
    c.channels = getattr(c, 'channels', []) + [(tx, rx)]
    return Tup([tx, rx])


@reg('UnboundedSender::send', 'Sender::send')
def m_sender_send(c, call, tx, val):
    tx = deref(tx)
    if not isinstance(tx, Tok):
        raise Unsupported('send on ' + type(tx).__name__)
    h = getattr(c, 'env', {}).get('send:' + tx.name) or getattr(c, 'env', {}).get('send')
    if h is not None:
        return h(c, tx, val)
    if tx.closed or (tx.peer is not None and tx.peer.dropped):
        return Err(val if 'oneshot' in tx.name else StructV('SendError', [(0, val)]))
    tx.sent.append(val)
    if tx.peer is not None and hasattr(tx.peer, 'queue'):
        tx.peer.queue.append(val)
    return Ok(UNIT)


@reg('UnboundedSender::is_closed', 'Sender::is_closed')
def m_sender_is_closed(c, call, tx): return BOOL(deref(tx).closed)


@reg('UnboundedSender::closed', 'Sender::closed')
def m_sender_closed(c, call, tx): return EnvFut('closed', tx=deref(tx))


@reg('UnboundedReceiver::try_recv', 'Receiver::try_recv')
def m_try_recv(c, call, rx):
    """non-blocking receive: whatever the lane's `recv` environment would hand out right now"""
    h = c.env.get('try_recv') or c.env.get('recv')
    if h is None: raise Unsupported('no environment stub for try_recv')
    r = h(c, EnvFut('recv', rx=deref(rx)))
    if r is PENDING: return Err(EnumV('TryRecvError', 'Empty'))
    if r.variant == 'None': return Err(EnumV('TryRecvError', 'Disconnected'))
    return Ok(r.fields[0])


@reg('UnboundedReceiver::recv', 'Receiver::recv')
def m_recv(c, call, rx): return EnvFut('recv', rx=deref(rx))


@reg('tokio::time::timeout', 'time::timeout', 'timeout')
def m_timeout(c, call, dur, fut): return EnvFut('timeout', dur=dur, fut=fut)


@reg('tokio::time::sleep', 'time::sleep')
def m_sleep(c, call, dur): return EnvFut('sleep', dur=dur)


@reg('tokio::sync::Mutex::new', 'sync::Mutex::new')
def m_tokio_mutex_new(c, call, x): return Tup([x])


@reg('Mutex::lock')
def m_any_lock(c, call, m):
    m0 = deref(m)
    inner = m0[0] if isinstance(m0, Tup) and len(m0) == 1 else m0
    callee = call.callee
    if 'tokio::sync' in callee or 'tokio' in (call.self_ty or ''):
        class LockFut:
            def poll(self, c, cx): return EnumV('Poll', 'Ready', [Tup([inner])])
        return LockFut()
    return Ok(inner)


@reg('StreamExt::next', 'SinkExt::send', 'SinkExt::close', 'AsyncWriteExt::shutdown', 'Framed::get_mut', 'Framed::get_ref')
def m_framed(c, call, st, *a):
    k = call.key.split('::')[1]
    if k in ('get_mut', 'get_ref'): return st
    return EnvFut('framed:' + k, stream=deref(st), args=a)
