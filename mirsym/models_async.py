"""Lanes B2/B3: coroutine plumbing and environment stubs (filled in by the async harnesses)."""
