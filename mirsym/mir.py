"""MIR text (rustc -Zunpretty=mir) -> structured functions, plus type information read from the
crate sources (enum variant order / explicit discriminants, struct field order, impl headers)."""
import os
import re
import hashlib
from .values import Unsupported, INT

# ------------------------------------------------------------------------------------------
# lexical helpers


def mask_lits(s):
    """replace the inside of string literals by '_' so bracket matching is not confused"""
    if '"' not in s and "'" not in s:
        return s
    out = []; inq = False; i = 0; n = len(s)
    while i < n:
        ch = s[i]
        if not inq and ch == "'":
            # char literal 'x' or '\x..' (a lifetime 'a has no closing quote right after)
            if i + 2 < n and s[i + 1] != '\\' and s[i + 2] == "'":
                out.append("'_'"); i += 3; continue
            if i + 1 < n and s[i + 1] == '\\':
                j = s.find("'", i + 2)
                if 0 < j <= i + 12:
                    out.append("'" + '_' * (j - i - 1) + "'"); i = j + 1; continue
        if inq:
            if ch == '\\' and i + 1 < n:
                out.append('__'); i += 2; continue
            if ch == '"':
                inq = False; out.append('"')
            else:
                out.append('_')
        else:
            if ch == '"':
                inq = True
            out.append(ch)
        i += 1
    return ''.join(out)


def split_top(s0, sep=','):
    s = mask_lits(s0)
    out = []; depth = 0; start = 0
    for i, ch in enumerate(s):
        if ch in '([{':
            depth += 1
        elif ch in ')]}':
            depth -= 1
        elif ch == '<' and not (i > 0 and s[i - 1] == '-'):
            depth += 1
        elif ch == '>' and not (i > 0 and s[i - 1] in '-='):
            depth -= 1
        if ch == sep and depth == 0:
            out.append(s0[start:i].strip()); start = i + 1
    if s0[start:].strip():
        out.append(s0[start:].strip())
    return out


def strip_generics(s):
    """remove every `::<...>` turbofish (balanced) from a path"""
    if '::<' not in s:
        return s
    out = []; i = 0; n = len(s)
    while i < n:
        if s.startswith('::<', i) and not s.startswith('::<impl ', i):
            j = i + 2; d = 0
            while j < n:
                c = s[j]
                if c == '<':
                    d += 1
                elif c == '>' and s[j - 1] not in '-=':
                    d -= 1
                    if d == 0:
                        break
                j += 1
            i = j + 1
            continue
        out.append(s[i]); i += 1
    return ''.join(out)


def strip_angle(s):
    """remove every balanced <...> group (type arguments)"""
    out = []; d = 0
    for i, c in enumerate(s):
        if c == '<' and not (i > 0 and s[i - 1] == '-'):
            d += 1; continue
        if c == '>' and not (i > 0 and s[i - 1] in '-='):
            d -= 1; continue
        if d == 0:
            out.append(c)
    return ''.join(out)


def last_seg(p):
    return p.split('::')[-1]


# ------------------------------------------------------------------------------------------
# source information

ENABLED_FEATURES = {'sync'}


def cfg_true(expr):
    expr = expr.strip()
    m = re.match(r'^(any|all|not)\((.*)\)$', expr, re.S)
    if m:
        parts = [cfg_true(p) for p in split_top(m.group(2))]
        return {'any': any(parts), 'all': all(parts), 'not': not parts[0] if parts else True}[m.group(1)]
    m = re.match(r'^feature\s*=\s*"([^"]+)"$', expr)
    if m:
        return m.group(1) in ENABLED_FEATURES
    return expr in ('unix', 'target_family = "unix"')


class SrcInfo:
    """enum variants (order, explicit discriminants), struct field names, read from .rs files"""
    STD_ENUMS = {
        'Option': ['None', 'Some'], 'Result': ['Ok', 'Err'], 'ControlFlow': ['Continue', 'Break'],
        'Poll': ['Ready', 'Pending'], 'Cow': ['Borrowed', 'Owned'], 'Err': ['Incomplete', 'Error', 'Failure'],
        'Needed': ['Unknown', 'Size'], 'Ordering': ['Less', 'Equal', 'Greater'],
        'Entry': ['Occupied', 'Vacant'], 'Either': ['Left', 'Right'], 'TryRecvError': ['Empty', 'Disconnected'],
        # tokio::select! with four branches (the only one in the crate): enum Out { _0, _1, _2, _3, Disabled }
        'Out': ['_0', '_1', '_2', '_3', 'Disabled'],
    }
    STD_DISCR = {('Ordering', 'Less'): -1, ('Ordering', 'Equal'): 0, ('Ordering', 'Greater'): 1}

    def __init__(self, roots):
        self.enums = {k: list(v) for k, v in self.STD_ENUMS.items()}
        self.discr = dict(self.STD_DISCR)
        self.structs = {}
        self.files = {}
        for root in roots:
            for dp, _, fs in os.walk(root):
                for f in fs:
                    if f.endswith('.rs'):
                        p = os.path.join(dp, f)
                        self.files[p] = open(p).read()
        for p, text in self.files.items():
            self._scan(text)

    @staticmethod
    def _strip_comments(t):
        t = re.sub(r'//[^\n]*', '', t)
        return re.sub(r'/\*.*?\*/', '', t, flags=re.S)

    def _scan(self, text):
        t = self._strip_comments(text)
        for m in re.finditer(r'\b(enum|struct)\s+(\w+)\s*(<[^{;(]*>)?\s*(where[^{;]*)?([{(;])', t):
            kind, name, opener = m.group(1), m.group(2), m.group(5)
            if opener == ';':
                if kind == 'struct':
                    self.structs.setdefault(name, [])
                continue
            close = {'{': '}', '(': ')'}[opener]
            i = m.end(); d = 1
            while i < len(t) and d:
                if t[i] == opener: d += 1
                elif t[i] == close: d -= 1
                i += 1
            body = t[m.end():i - 1]
            items = []
            for part in split_top(body):
                attrs = re.findall(r'#\[(.*?)\]\s*', part, flags=re.S)
                part2 = re.sub(r'#\[.*?\]\s*', '', part, flags=re.S).strip()
                ok = True
                for a in attrs:
                    mm = re.match(r'cfg\((.*)\)$', a.strip(), re.S)
                    if mm and not cfg_true(mm.group(1)):
                        ok = False
                if ok and part2:
                    items.append(part2)
            if kind == 'enum':
                names = []; nextd = 0
                for it in items:
                    mm = re.match(r'(\w+)', it)
                    vn = mm.group(1); names.append(vn)
                    md = re.search(r'=\s*(-?\d+)\s*$', it)
                    if md and '(' not in it and '{' not in it:
                        nextd = int(md.group(1))
                    self.discr[(name, vn)] = nextd; nextd += 1
                self.enums[name] = names
            else:
                if opener == '{':
                    fields = []
                    for it in items:
                        mm = re.match(r'(?:pub(?:\([^)]*\))?\s+)?(\w+)\s*:', it)
                        if mm:
                            fields.append(mm.group(1))
                    self.structs[name] = fields
                else:
                    self.structs[name] = list(range(len(items)))

    def variant_index(self, ty, variant):
        vs = self.enums.get(ty)
        if vs is None or variant not in vs:
            raise Unsupported(f'unknown enum variant {ty}::{variant}')
        return vs.index(variant)

    def discr_of(self, ty, variant):
        if (ty, variant) in self.discr:
            return self.discr[(ty, variant)]
        return self.variant_index(ty, variant)


# ------------------------------------------------------------------------------------------
# MIR structure


class Fn:
    __slots__ = ('name', 'nargs', 'locals', 'blocks', 'raw', 'sig', 'crate', 'compiled', 'nlines', 'span', 'cleanup')

    def __init__(self, name, nargs, locals_, raw, sig, crate):
        self.name = name; self.nargs = nargs; self.locals = locals_; self.raw = raw; self.sig = sig
        self.crate = crate; self.compiled = None; self.blocks = None; self.nlines = sum(len(v) for v in raw.values())
        self.span = None
        self.cleanup = set()


class Program:
    """all MIR bodies of the linked crates + name index"""

    def __init__(self, srcroot, src):
        self.srcroot = srcroot; self.src = src
        self.fns = {}          # full name -> Fn
        self.alias = {}        # alias name -> Fn
        self.promoted = {}     # (fn name, idx) / suffix -> Fn
        self.consts = {}       # const path -> (value, type)
        self.closures = {}     # span string -> {idx: Fn}
        self.closures_all = {}
        self.hashes = {}
        self.executed = {}

    def load(self, path, crate):
        text = open(path).read()
        self.hashes[crate] = hashlib.sha256(text.encode()).hexdigest()[:16]
        lines = text.split('\n'); i = 0; n = len(lines)
        while i < n:
            l = lines[i]
            if (l.startswith('fn ') or (l.startswith('const ') or l.startswith('static ')) and l.endswith('= {')) and l.endswith('{'):
                is_fn = l.startswith('fn ')
                if is_fn:
                    head = l[3:-2]
                    m = re.search(r'\((_1: |\) -> |\)$)', head)
                    name = head[:m.start()]
                    rest = head[m.start():]
                    argpart = rest.split(') -> ')[0] + ')'
                    nargs = len(re.findall(r'(?:^\(|, )_\d+: ', argpart))
                else:
                    head = l[:-4]
                    name = head.split(' ', 1)[1].rsplit(': ', 1)[0] if ': ' in head else head.split(' ', 1)[1]
                    nargs = 0; rest = ''
                locs = {}; blocks = {}; cur = None; i += 1; cleanup = set()
                if is_fn:
                    for am in re.finditer(r'(_\d+): ', argpart):
                        pass
                    # argument types
                    inner = argpart[1:-1]
                    for part in split_top(inner):
                        mm = re.match(r'(_\d+): (.*)$', part, re.S)
                        if mm:
                            locs[mm.group(1)] = mm.group(2)
                while lines[i] != '}':
                    s = lines[i].strip()
                    if s.startswith('let '):
                        m2 = re.match(r'let (?:mut )?(_\d+): (.*);$', s)
                        if m2:
                            locs[m2.group(1)] = m2.group(2)
                    else:
                        m2 = re.match(r'(bb\d+)( \(cleanup\))?: \{$', s)
                        if m2:
                            cur = m2.group(1); blocks[cur] = []
                            if m2.group(2):
                                cleanup.add(cur)
                        elif cur and s and s != '}' and not s.startswith(('StorageLive', 'StorageDead', 'debug ', 'scope ', 'FakeRead', 'PlaceMention', 'AscribeUserType', 'Retag', 'nop', 'Coverage', 'ConstEvalCounter')):
                            blocks[cur].append(s[:-1] if s.endswith(';') else s)
                    i += 1
                fn = Fn(name, nargs, locs, blocks, l, crate)
                fn.cleanup = cleanup
                if not is_fn or 'promoted[' in name:
                    self.promoted[name] = fn
                else:
                    if name in self.fns:
                        # several bodies with one printed name (macro-generated impls sharing a span)
                        k = 2
                        while f'{name}#{k}' in self.fns:
                            k += 1
                        self.fns[f'{name}#{k}'] = fn
                    else:
                        self.fns[name] = fn
                    self._index(fn)
            else:
                mc = re.match(r'^const ([\w:{}#<>]+): (.*?) = (const .*);$', l)
                if mc:
                    self.consts[mc.group(1)] = mc.group(3)
                elif l.startswith('const ') and ' = const ' in l and l.endswith(';') and '<impl at ' in l:
                    # constant scoped under an impl block: `const m::<impl at file:l:c: l:c>::f::NAME: ty = const v;`
                    left, val = l[6:].split(' = const ', 1)
                    if ': ' in left:
                        self.consts[left[:left.rindex(': ')]] = 'const ' + val[:-1]
            i += 1

    def _src_line(self, file, line):
        for base in (self.srcroot, ''):
            p = os.path.join(base, file)
            if p in self.src.files:
                ls = self.src.files[p].split('\n')
                return ls, line - 1
        return None, None

    def _index(self, fn):
        name = fn.name
        short = re.sub(r'^(?:[a-z_0-9]+::)+(?=[A-Za-z_<{])', '', name) if not name.startswith('<') else name
        self.alias.setdefault(name, fn)
        if '{closure#' in name or '{constant#' in name:
            pass
        mm = re.match(r'^(?:[\w]+::)*<impl at ([^:]+):(\d+):(\d+): \d+:\d+>::(.*)$', name)
        if mm:
            file, line, col, rest = mm.group(1), int(mm.group(2)), int(mm.group(3)), mm.group(4)
            ls, li = (None, None) if file.startswith('/') else self._src_line(file, line)
            srcl = ls[li] if ls is not None else ''
            im = re.match(r'\s*(?:unsafe\s+)?impl(?:<.*?>)?\s+(?:(!?[\w:]+(?:<.*>)?)\s+for\s+)?([\w:]+)', srcl)
            ty = tr = None
            if im and srcl.lstrip().startswith(('impl', 'unsafe impl')):
                # multi-line impl headers: join up to the '{'
                hdr = srcl; k = li
                while '{' not in hdr and k + 1 < len(ls):
                    k += 1; hdr += ' ' + ls[k].strip()
                hdr = hdr.split('{')[0].split(' where ')[0]
                hm = re.match(r'\s*(?:unsafe\s+)?impl\s*(<.*?>)?\s*(.*)$', hdr)
                body = hm.group(2).strip()
                # strip the generics list robustly
                if hdr.lstrip().startswith('impl<'):
                    d = 0
                    for j, c in enumerate(hdr[hdr.index('impl') + 4:]):
                        if c == '<': d += 1
                        elif c == '>':
                            d -= 1
                            if d == 0:
                                body = hdr[hdr.index('impl') + 4 + j + 1:].strip(); break
                if ' for ' in body:
                    tr, ty = body.split(' for ', 1)
                else:
                    ty = body
                ty = norm_type(ty)
                if tr:
                    tr = tr.strip().lstrip('!')
                    targs = trait_args(tr)
                    tr = last_seg(strip_angle(tr).strip())
                    if targs:
                        self.alias.setdefault(f'<{ty} as {tr}<{", ".join(targs)}>>::{rest}', fn)
                        ty = None
            elif '#[derive' in srcl or 'derive(' in srcl:
                # derived impl: the trait name sits at the column, the type follows the attributes
                tr = re.match(r'(\w+)', srcl[col - 1:]).group(1)
                k = li
                while k < len(ls) and not re.search(r'\b(struct|enum)\s+(\w+)', ls[k]):
                    k += 1
                if k < len(ls):
                    ty = re.search(r'\b(struct|enum)\s+(\w+)', ls[k]).group(2)
            if ty:
                a = f'<{ty} as {tr}>::{rest}' if tr else f'{ty}::{rest}'
                self.alias.setdefault(a, fn)
        else:
            self.alias.setdefault(short, fn)
            self.alias.setdefault(last_seg(name) if '{' not in name else name, fn)
            # trait default methods: `MakeCritical::critical`
        mcl = re.search(r'^(.*)::\{closure#(\d+)\}$', name)
        if mcl:
            # closure type (from its _1 argument) gives the span
            t1 = fn.locals.get('_1', '')
            ms = re.search(r'\{(?:closure|async block|async fn body|coroutine|async closure)@([^}]*?)\}', t1) or re.search(r'\{(?:closure|async block|async fn body of [^}]*?)@?([^}]*?)\}', t1)
            if ms:
                fn.span = ms.group(1)
                self.closures.setdefault(ms.group(1), fn)
                self.closures_all.setdefault(ms.group(1), []).append(fn)      # several closures can share a span (macro expansions)

    def find_promoted(self, cur_fn, tok):
        idx = re.search(r'promoted\[\d+\]$', tok).group(0)
        cands = [k for k in self.promoted if k.endswith(idx)]
        path = tok[:-len(idx)].rstrip(':')
        path_s = strip_generics(path)
        best = None
        for k in cands:
            kp = k[:-len(idx)].rstrip(':')
            if kp == path or kp == path_s or path_s.endswith('::' + kp) or kp.endswith('::' + path_s) or cur_fn.endswith(kp) or kp.endswith(last_seg_path(cur_fn)):
                if best is None or len(kp) > len(best[0]):
                    best = (kp, k)
        if best is None:
            raise Unsupported('promoted ' + tok)
        return self.promoted[best[1]]


def norm_type(t):
    t = t.strip()
    while t.startswith(('&', '*')):
        t = re.sub(r"^(&('\w+ )?(mut )?|\*(const|mut) )", '', t).strip()
    if t.startswith('dyn '):
        t = t[4:]
    return last_seg(strip_angle(t).strip())


def trait_args(tr):
    """normalised generic arguments of a trait reference `Trait<A, B>` (lifetimes dropped)"""
    tr = tr.strip()
    i = tr.find('<')
    if i < 0 or not tr.endswith('>'):
        return []
    return [norm_type(a) for a in split_top(tr[i + 1:-1]) if not a.strip().startswith("'")]


def last_seg_path(name):
    name = re.sub(r'^(?:[a-z_0-9]+::)+(?=[A-Za-z_<{])', '', name)
    return name


# ------------------------------------------------------------------------------------------
# statement compilation (done once per function, lazily)

BINOPS = ('AddWithOverflow', 'SubWithOverflow', 'MulWithOverflow', 'AddUnchecked', 'SubUnchecked', 'MulUnchecked',
          'ShlUnchecked', 'ShrUnchecked', 'Rem', 'Div', 'Add', 'Sub', 'Mul', 'BitAnd', 'BitOr', 'BitXor', 'Shl', 'Shr',
          'Lt', 'Le', 'Gt', 'Ge', 'Eq', 'Ne', 'Cmp', 'Offset')
RE_BINOP = re.compile(r'^(' + '|'.join(BINOPS) + r')\((.*)\)$', re.S)
RE_LOCAL = re.compile(r'^_\d+$')


def parse_place(p):
    """-> (local, [proj...]); proj: ('deref',) ('field',i,ty) ('downcast',name) ('index',local) ('cindex',i,fromend) ('subslice',a,b,fromend)"""
    p = p.strip()
    if RE_LOCAL.match(p):
        return (p, [])
    mk = re.match(r'^(.*)\[(-?\d+) of (\d+)\]$', p, re.S)
    if mk:
        b, pr = parse_place(mk.group(1)); return (b, pr + [('cindex', int(mk.group(2)), False)])
    mk = re.match(r'^(.*)\[-(\d+) of (\d+)\]$', p, re.S)
    if mk:
        b, pr = parse_place(mk.group(1)); return (b, pr + [('cindex', int(mk.group(2)), True)])
    mk = re.match(r'^(.*)\[(\d+):(-?)(\d+)\]$', p, re.S)
    if mk:
        b, pr = parse_place(mk.group(1)); return (b, pr + [('subslice', int(mk.group(2)), int(mk.group(4)), mk.group(3) == '-')])
    mi = re.match(r'^(.*)\[(_\d+)\]$', p, re.S)
    if mi:
        b, pr = parse_place(mi.group(1)); return (b, pr + [('index', mi.group(2))])
    if p.startswith('*'):
        b, pr = parse_place(p[1:]); return (b, pr + [('deref', _deref_kind(p[1:]))])
    if p.startswith('(') and p.endswith(')'):
        inner = p[1:-1]
        if inner.startswith('*'):
            b, pr = parse_place(inner[1:]); return (b, pr + [('deref', _deref_kind(inner[1:]))])
        if inner.startswith('('):
            d = 0
            for j, ch in enumerate(inner):
                if ch == '(': d += 1
                elif ch == ')':
                    d -= 1
                    if d == 0: break
            basep = inner[:j + 1]; rest = inner[j + 1:]
        else:
            m = re.match(r'^(_\d+(?:\[[^\]]*\])*)(.*)$', inner, re.S); basep = m.group(1); rest = m.group(2)
        b, pr = parse_place(basep)
        m = re.match(r'^ as ([\w#]+)$', rest)
        if m:
            return (b, pr + [('downcast', m.group(1))])
        m = re.match(r'^\.(\d+): (.*)$', rest, re.S)
        if m:
            return (b, pr + [('field', int(m.group(1)), m.group(2))])
    raise Unsupported('place ' + p)


_CUR_FN = [None]


def _deref_kind(base_text):
    """'ref' when the dereferenced place is a reference (transparent in the value model), 'box' when it is
    a Box or a raw pointer obtained from one (a BoxV unwraps), '?' when unknown"""
    fn = _CUR_FN[0]
    if fn is None:
        return '?'
    t = place_type(fn, base_text).strip()
    if t.startswith('&'):
        return 'ref'
    if t.startswith(('*const', '*mut', 'Box<', 'std::boxed::Box<')):
        return 'box'
    return '?'


def operand_type(fn, o):
    o = o.strip()
    m = re.match(r'^const -?\d+_(\w+)$', o)
    if m:
        return m.group(1)
    if o in ('const true', 'const false'):
        return 'bool'
    if o.startswith(('copy ', 'move ')):
        pl = o[5:].strip()
        return place_type(fn, pl)
    m = re.match(r'^const .*::(MIN|MAX)$', o)
    if m:
        mm = re.search(r'(i8|i16|i32|i64|isize|u8|u16|u32|u64|usize)::(MIN|MAX)$', o)
        return mm.group(1) if mm else '?'
    return '?'


def place_type(fn, pl):
    pl = pl.strip()
    if RE_LOCAL.match(pl):
        return fn.locals.get(pl, '?')
    m = re.search(r': ([^()]*(?:\([^()]*\))?[^()]*)\)$', pl)
    if pl.startswith('(') and pl.endswith(')'):
        # (base.N: T)
        d = 0
        for j in range(len(pl) - 1, -1, -1):
            pass
        mm = re.match(r'^\((.*)\.(\d+): (.*)\)$', pl, re.S)
        if mm:
            return mm.group(3)
        if pl.startswith('(*'):
            t = place_type(fn, pl[2:-1])
            return re.sub(r'^(&(mut )?|\*(const|mut) |Box<)', '', t)
    if pl.startswith('*'):
        t = place_type(fn, pl[1:])
        return re.sub(r'^(&(\'\w+ )?(mut )?|\*(const|mut) )', '', t)
    return '?'


def parse_operand(fn, o):
    o = o.strip()
    if o.startswith('no_retag '):
        o = o[9:]
    if o.startswith('copy '):
        pl = o[5:]
        t = place_type(fn, pl).strip()
        isref = t.startswith(('&', '*')) or t.startswith('Pin<&')
        return ('copy', parse_place(pl), isref)
    if o.startswith('move '):
        return ('move', parse_place(o[5:]))
    if o == '()':
        return ('unit',)
    if o.startswith('const '):
        return ('const', o)
    return ('fnitem', o)


def parse_rvalue(fn, rv):
    rv = rv.strip()
    if rv.startswith('no_retag '):
        rv = rv[9:]
    m = RE_BINOP.match(rv)
    if m:
        aa, bb = split_top(m.group(2))
        ty = operand_type(fn, aa)
        return ('binop', m.group(1), parse_operand(fn, aa), parse_operand(fn, bb), ty)
    m = re.match(r'^(Not|Neg|PtrMetadata)\((.*)\)$', rv, re.S)
    if m:
        return ('unop', m.group(1), parse_operand(fn, m.group(2)), operand_type(fn, m.group(2)))
    m = re.match(r'^(.*) as (.+?) \((\w+)(?:\(.*\))?\)$', rv, re.S)
    if m and m.group(3) in ('IntToInt', 'PointerCoercion', 'Subtype', 'Transmute', 'PtrToPtr', 'FnPtrToPtr', 'PointerExposeProvenance', 'IntToFloat', 'FloatToInt'):
        return ('cast', m.group(3), parse_operand(fn, m.group(1)), operand_type(fn, m.group(1)), m.group(2))
    m = re.match(r'^discriminant\((.*)\)$', rv, re.S)
    if m:
        return ('discr', parse_place(m.group(1)))
    m = re.match(r'^Len\((.*)\)$', rv, re.S)
    if m:
        return ('len', parse_place(m.group(1)))
    if rv.startswith('&'):
        mm = re.match(r'^&(mut |raw const |raw mut |fake shallow |fake )?(.*)$', rv, re.S)
        kind = (mm.group(1) or '').strip()
        return ('ref', 'mut' if kind in ('mut', 'raw mut') else 'shared', parse_place(mm.group(2)), place_type(fn, mm.group(2)))
    mco = re.match(r'^\{(coroutine|async block|async fn body[^@]*|async closure)@([^}]*)\}(?: \{ (.*) \})?$', rv, re.S)
    if mco:
        ups = [parse_operand(fn, f.split(': ', 1)[1]) for f in split_top(mco.group(3))] if mco.group(3) else []
        return ('coroutine', mco.group(2), ups)
    mcl = re.match(r'^(\{closure@[^}]*\})(?: \{ (.*) \})?$', rv, re.S)
    if mcl:
        caps = []
        if mcl.group(2):
            for f in split_top(mcl.group(2)):
                caps.append(parse_rvalue(fn, f.split(': ', 1)[1]))
        return ('closure', mcl.group(1), caps)
    if rv.startswith('[') and rv.endswith(']'):
        inner = rv[1:-1]
        mrep = re.match(r'^(.*); (\d+)$', inner, re.S)
        if mrep and len(split_top(inner)) == 1:
            return ('repeat', parse_operand(fn, mrep.group(1)), int(mrep.group(2)))
        return ('array', [parse_operand(fn, x) for x in split_top(inner)])
    if rv.startswith('(') and rv.endswith(')') and not rv.startswith(('(*', '((')):
        inner = rv[1:-1]
        parts = split_top(inner)
        if inner.strip().endswith(',') or len(parts) != 1 or not re.match(r'^(_\d+|copy |move )', inner.strip()) or ': ' not in inner:
            if not (len(parts) == 1 and not inner.strip().endswith(',') and re.match(r'^_\d+\.\d+: ', inner)):
                return ('tuple', [parse_operand(fn, x) for x in parts])
    if rv.startswith(('copy ', 'move ', 'const ')):
        return ('use', parse_operand(fn, rv))
    # ADT aggregates:  Path::<..>::Variant(args) | Path::<..> { f: v, .. } | Path::Variant | Path(args)
    m = re.match(r'^(.+?) \{ (.*) \}$', rv, re.S)
    if m and not m.group(1).startswith('{'):
        path = strip_generics(m.group(1))
        fs = []
        for f in split_top(m.group(2)):
            k, v = f.split(': ', 1); fs.append((k, parse_operand(fn, v)))
        return ('adt', path, fs, 'named')
    if rv.endswith(')') and not rv.startswith('(') and not rv.startswith('{'):
        callee, argstr = split_call(rv)
        path = strip_generics(callee)
        if re.match(r'^[\w:<>\[\], &\'{}#@./()-]+$', path):
            args = [parse_operand(fn, x) for x in split_top(argstr)] if argstr.strip() else []
            return ('adt', path, [(i, a) for i, a in enumerate(args)], 'tuple')
    rs = strip_generics(rv)
    if re.match(r'^[\w:<>, &\[\]\']+$', rs) and rs[0].isalpha() or rs.startswith('<'):
        return ('adt', rs, [], 'unit')
    return ('use', parse_operand(fn, rv))


def split_call(call):
    """callee(args) -> (callee, argstr) splitting at the last top-level '('"""
    cm = mask_lits(call); d = 0
    for j in range(len(cm) - 1, -1, -1):
        ch = cm[j]
        if ch == ')': d += 1
        elif ch == '(':
            d -= 1
            if d == 0:
                return call[:j], call[j + 1:-1]
    raise Unsupported('call syntax ' + call[:80])


def split_assign(st):
    """split `place = rhs` at the first top-level ' = ' (type annotations inside a place may contain ' = ')"""
    m = mask_lits(st); d = 0
    for i, ch in enumerate(m):
        if ch in '([{': d += 1
        elif ch in ')]}': d -= 1
        elif d == 0 and m.startswith(' = ', i):
            return st[:i], st[i + 3:]
    return None


def compile_stmt(fn, st):
    if st.startswith('goto -> '):
        return ('goto', st[8:])
    if st == 'return':
        return ('return',)
    if st == 'unreachable':
        return ('unreachable',)
    if st.startswith('resume') or st.startswith('terminate') or st == 'coroutine_drop':
        return ('resume',)
    if st.startswith('drop('):
        m = re.match(r'^drop\((.*)\) -> \[return: (bb\d+)', st, re.S)
        return ('drop', parse_place(m.group(1)), m.group(2))
    m = re.match(r'^switchInt\((.*)\) -> \[(.*)\]$', st, re.S)
    if m:
        arms = []
        for a in m.group(2).split(', '):
            k, t = a.split(': ')
            arms.append((None if k == 'otherwise' else int(k), t))
        return ('switch', parse_operand(fn, m.group(1)), arms, operand_type(fn, m.group(1)))
    m = re.match(r'^assert\((!?)(.*?), "(.*?)"(.*)\) -> \[success: (bb\d+), unwind.*\]$', st, re.S)
    if m:
        return ('assert', bool(m.group(1)), parse_operand(fn, m.group(2)), m.group(3), m.group(5))
    sa = split_assign(st)
    if sa is not None:
        lhs, rhs = sa
        m = re.match(r'^(.*) -> \[return: (bb\d+), unwind.*\]$', rhs, re.S) or re.match(r'^(.*) -> (bb\d+)$', rhs, re.S)
        if m and '(' in m.group(1) and not lhs.startswith('discriminant('):
            call, nb = m.group(1), m.group(2)
            callee, argstr = split_call(call)
            args = [parse_operand(fn, x) for x in split_top(argstr)] if argstr.strip() else []
            return ('call', parse_place(lhs), callee, args, nb)
        m = re.match(r'^(.*) -> unwind.*$', rhs, re.S)
        if m and '(' in m.group(1):
            callee, argstr = split_call(m.group(1))
            args = [parse_operand(fn, x) for x in split_top(argstr)] if argstr.strip() else []
            return ('call', parse_place(lhs), callee, args, None)
    m = re.match(r'^yield\((.*)\) -> \[resume: (bb\d+), drop: (bb\d+)\]$', st, re.S)
    if m:
        return ('yield', parse_operand(fn, m.group(1)), m.group(2))
    m = re.match(r'^(\S.*?) = yield\((.*)\) -> \[resume: (bb\d+), drop: (bb\d+)\]$', st, re.S)
    if m:
        return ('yield', parse_operand(fn, m.group(2)), m.group(3), parse_place(m.group(1)))
    m = re.match(r'^discriminant\((.*)\) = (\d+)$', st, re.S)
    if m:
        return ('setdiscr', parse_place(m.group(1)), int(m.group(2)))
    if sa is not None:
        return ('assign', parse_place(sa[0]), parse_rvalue(fn, sa[1]))
    raise Unsupported('statement ' + st[:100])


def compile_fn(fn):
    if fn.compiled is None:
        out = {}
        _CUR_FN[0] = fn
        try:
            for bb, sts in fn.raw.items():
                out[bb] = [compile_stmt(fn, s) for s in sts]
        finally:
            _CUR_FN[0] = None
        fn.compiled = out
    return fn.compiled
