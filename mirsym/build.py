"""Regenerate the MIR dumps of /repo's current working tree (content-addressed by a hash of the
sources, so concurrent checks of the same tree share one dump) and load them."""
import fcntl
import hashlib
import os
import subprocess
import time
from .mir import Program, SrcInfo

REPO = os.environ.get('VERIF_REPO', '/repo')
WORK = os.environ.get('VERIF_WORK', '/verif/.work')
RUSTFLAGS = ['-Zunpretty=mir', '-Zmir-opt-level=0', '-C', 'overflow-checks=on', '-C', 'debug-assertions=off']


def source_hash():
    h = hashlib.sha256()
    for root in ('src', 'lber/src'):
        for dp, dn, fs in sorted(os.walk(os.path.join(REPO, root))):
            dn.sort()
            for f in sorted(fs):
                p = os.path.join(dp, f)
                h.update(p.encode()); h.update(open(p, 'rb').read())
    for f in ('Cargo.toml', 'lber/Cargo.toml', 'Cargo.lock'):
        p = os.path.join(REPO, f)
        if os.path.exists(p):
            h.update(open(p, 'rb').read())
    return h.hexdigest()[:20]


def dump_mir(variant=''):
    """-> (dir with lber.mir / ldap3.mir, seconds spent, hash).  variant 'tls' = ldap3 with default features, 'hooks' = sync + the verif feature (constructors of handles)"""
    hsh = source_hash()
    out = os.path.join(WORK, 'mir', hsh)
    os.makedirs(os.path.join(WORK, 'mir'), exist_ok=True)
    t0 = time.time()
    with open(os.path.join(WORK, 'mir', '.lock'), 'w') as lk:
        fcntl.flock(lk, fcntl.LOCK_EX)
        want = {'tls': 'ldap3_tls.mir', 'hooks': 'ldap3_hooks.mir'}.get(variant, 'ldap3.mir')
        if not (os.path.exists(os.path.join(out, want)) and os.path.exists(os.path.join(out, 'lber.mir'))):
            os.makedirs(out, exist_ok=True)
            env = dict(os.environ, CARGO_NET_OFFLINE='true')
            env.pop('RUSTFLAGS', None)
            tgt = os.path.join(WORK, 'mir', 'target')
            jobs = [('lber', [], 'lber')] if not os.path.exists(os.path.join(out, 'lber.mir')) else []
            jobs.append({'tls': ('ldap3', [], 'ldap3_tls'), 'hooks': ('ldap3', ['--no-default-features', '--features', 'sync,verif'], 'ldap3_hooks')}.get(variant, ('ldap3', ['--no-default-features', '--features', 'sync'], 'ldap3')))
            for crate, extra, outname in jobs:
                # a plain `cargo rustc` re-run prints nothing when the crate is fresh: force a rebuild
                src = os.path.join(REPO, 'lber/src/lib.rs' if crate == 'lber' else 'src/lib.rs')
                st = os.stat(src)
                os.utime(src, None)
                try:
                    p = subprocess.run(['cargo', '+nightly', 'rustc', '--offline', '-p', crate, '--lib', '--target-dir', tgt + {'ldap3_tls': '-tls', 'ldap3_hooks': '-hooks'}.get(outname, '')] + extra + ['--'] + RUSTFLAGS,
                                       cwd=REPO, env=env, stdout=subprocess.PIPE, stderr=subprocess.PIPE, text=True)
                finally:
                    os.utime(src, (st.st_atime, st.st_mtime))
                if p.returncode != 0 or 'fn ' not in p.stdout:
                    raise RuntimeError(f'MIR dump of {crate} failed:\n{p.stderr[-3000:]}')
                tmp = os.path.join(out, outname + '.mir.tmp')
                open(tmp, 'w').write(p.stdout)
                os.replace(tmp, os.path.join(out, outname + '.mir'))
            # keep at most 6 dumps
            ds = sorted((d for d in os.listdir(os.path.join(WORK, 'mir')) if len(d) == 20), key=lambda d: os.stat(os.path.join(WORK, 'mir', d)).st_mtime)
            for d in ds[:-6]:
                subprocess.run(['rm', '-rf', os.path.join(WORK, 'mir', d)])
    return out, time.time() - t0, hsh


def load_program(variant=''):
    from . import mir as _mir
    _mir.ENABLED_FEATURES = {'tls': {'sync', 'tls', 'tls-native'}, 'hooks': {'sync', 'verif'}}.get(variant, {'sync'})
    d, secs, hsh = dump_mir(variant)
    src = SrcInfo([os.path.join(REPO, 'src'), os.path.join(REPO, 'lber/src')])
    prog = Program(REPO, src)
    # the dump records paths relative to the package root: lber/src/... and src/...
    src.files = {os.path.relpath(p, REPO): t for p, t in src.files.items()} | src.files
    prog.load(os.path.join(d, 'lber.mir'), 'lber')
    prog.load(os.path.join(d, {'tls': 'ldap3_tls.mir', 'hooks': 'ldap3_hooks.mir'}.get(variant, 'ldap3.mir')), 'ldap3')
    prog.dump_dir = d; prog.dump_secs = secs; prog.src_hash = hsh
    return prog


def new_ctx(prog, dev=True):
    from .engine import Ctx
    from . import models, models_nom, models_async  # noqa: F401  (registers models)
    return Ctx(prog, models.M, dev=dev)
