"""C14 The synchronous API is observationally identical to the asynchronous one (lane B2).
Each LdapConn / EntryStream method is executed from MIR; Runtime::block_on is modelled as "drive the
future to completion"; the same-named Ldap / SearchStream method is an intercepted, uninterpreted
callee that records its arguments and resolves to an arbitrary value.  z3/identity obligations:
exactly one forwarded call, to the right method, on the wrapper's own handle, with the arguments
unchanged, and the wrapper returns exactly what the async method produced."""
import z3
from .framework import *
from .lane import Lane, run_lane
from mirsym.values import *
from mirsym.engine import TRUE, FALSE
from mirsym.models import eq_term, and_all
from mirsym.models_async import poll_value, Tok


class Tokn:
    """an opaque, identity-compared value"""
    def __init__(self, name): self.name = name
    def __repr__(self): return f'<{self.name}>'
    def clone(self): return self


class ReadyFut:
    def __init__(self, v): self.v = v
    def poll(self, c, cx): return EnumV('Poll', 'Ready', [self.v])


METHODS = {
    # name: (argument makers, returns Result?)
    'simple_bind': (['str', 'str'], True), 'sasl_external_bind': ([], True), 'search': (['str', 'scope', 'str', 'attrs'], True),
    'streaming_search': (['str', 'scope', 'str', 'attrs'], True), 'streaming_search_with': (['adapters', 'str', 'scope', 'str', 'attrs'], True),
    'add': (['str', 'tok'], True), 'compare': (['str', 'str', 'tok'], True), 'delete': (['str'], True), 'modify': (['str', 'tok'], True),
    'modifydn': (['str', 'str', 'bool', 'optstr'], True), 'unbind': ([], True), 'extended': (['tok'], True), 'abandon': (['i32'], True),
    'get_peer_certificate': ([], True),
}
STREAM_METHODS = ['next', 'result']
SIMPLE = ['with_search_options', 'with_controls', 'with_timeout', 'last_id', 'is_closed', 'stream_last_id']


class SyncWrappers(Lane):
    name = 'C14.sync_wrappers'

    def inputs(self):
        c = self.c
        allm = list(METHODS) + STREAM_METHODS + SIMPLE
        m = allm[c.choose(len(allm), 'method')]
        d = {'method': m, 'ok': bool(c.choose(2, 'callee_ok'))}
        return d

    def mk_args(self, kinds):
        args = []
        for i, k in enumerate(kinds):
            c = self.c
            if k == 'str': args.append(StrV([z3.BitVec(f'a{i}_{j}', 8) for j in range(c.choose(3, f'len{i}'))]))      # "", 1 or 2 symbolic bytes
            elif k == 'scope': args.append(EnumV('Scope', ['Base', 'OneLevel', 'Subtree'][c.choose(3, f'scope{i}')]))
            elif k == 'attrs': args.append(VecV([StrV([z3.BitVec(f'at{i}_{j}', 8)]) for j in range(c.choose(3, f'nattrs{i}'))]))
            elif k == 'bool': args.append(z3.Bool(f'b{i}'))
            elif k == 'i32': args.append(z3.BitVec(f'n{i}', 32))
            elif k == 'optstr': args.append([NONE(), Some(StrV([])), Some(StrV([z3.BitVec(f'o{i}', 8)]))][c.choose(3, f'opt{i}')])                 # None | Some("") | Some(1 byte)
            elif k == 'adapters': args.append(VecV([]))
            else: args.append(Tokn(f'arg{i}'))
        return args

    def execute(self, d):
        c = self.c; prog = c.prog; m = d['method']
        ldap = StructV('Ldap', [('msgmap', Tup([Tup([Tup([z3.BitVecVal(0, 32), SetV()])])])), ('tx', Tok('tx', 'req')), ('id_scrub_tx', Tok('tx', 'scrub')), ('misc_tx', Tok('tx', 'misc')),
                                ('last_id', z3.BitVec('last_id', 32)), ('has_tls', FALSE), ('timeout', NONE()), ('controls', NONE()), ('search_opts', NONE())])
        rt = Tokn('runtime')
        conn = StructV('LdapConn', [('rt', rt), ('ldap', ldap)])
        calls = []; blocks = []
        result_tok = Tokn('async-result')

        def block_on(ctx, call, rtv, fut):
            blocks.append(deref(rtv))
            r = poll_value(ctx, fut, Opaque('Context'))
            if r.variant != 'Ready':
                raise Unsupported('block_on: future pending with no pending source modelled')
            return r.fields[0]

        def fwd(name):
            def h(ctx, call, *args):
                calls.append((name, [deref(a) if not z3.is_expr(a) else a for a in args], list(args)))
                val = result_tok
                if name == 'stream.next' and m != 'next':
                    # a wrapper that drives a stream itself (instead of forwarding) must be able to look at the items:
                    # one entry, then the end of the stream (or an error)
                    nth = sum(1 for x in calls if x[0] == 'stream.next')
                    val = (Ok(Some(Tokn('entry'))) if nth == 1 else Ok(NONE())) if d['ok'] else Err(Tokn('async-error'))
                elif name in METHODS or name in ('stream.next',):
                    val = Ok(result_tok) if d['ok'] else Err(Tokn('async-error'))
                return ReadyFut(val)
            return h
        ic = {'Runtime::block_on': block_on, 'UnboundedSender::is_closed': lambda ctx, call, tx: ctx.fresh_bool('closed')}
        for name in METHODS:
            ic[prog.alias['Ldap::' + name].name] = fwd(name)
        ic[prog.alias['SearchStream::next'].name] = fwd('stream.next')
        ic[prog.alias['SearchStream::finish'].name] = fwd('stream.finish')
        c.intercept = ic
        try:
            if m in METHODS:
                args = self.mk_args(METHODS[m][0])
                r = c.run_fn('LdapConn::' + m, [conn] + args)
                return {'ret': r, 'calls': calls, 'args': args, 'conn': conn, 'ldap': ldap, 'blocks': blocks, 'rt': rt, 'tok': result_tok}
            if m in STREAM_METHODS:
                stream = StructV('SearchStream', [('ldap', ldap), ('rx', NONE()), ('state', EnumV('StreamState', 'Active')), ('adapters', VecV([])), ('ax', z3.BitVecVal(0, 64)),
                                                  ('timeout', NONE()), ('res', Some(Tokn('buffered-result')) if m == 'result' else NONE())])
                es = StructV('EntryStream', [('stream', stream), ('conn', conn)])
                r = c.run_fn('EntryStream::' + m, [es])
                return {'ret': r, 'calls': calls, 'args': [], 'conn': conn, 'ldap': ldap, 'stream': stream, 'blocks': blocks, 'rt': rt, 'tok': result_tok}
            # simple accessors / modifiers: compare with the async counterpart on an identical handle
            from mirsym.engine import clone_val
            ldap2 = clone_val(ldap)
            if m == 'with_timeout':
                a = StructV('Duration', [('secs', z3.BitVec('secs', 64)), ('nanos', z3.BitVec('nanos', 32))])
                c.run_fn('LdapConn::with_timeout', [conn, a]); c.run_fn('Ldap::with_timeout', [ldap2, clone_val(a)])
            elif m == 'with_search_options':
                a = StructV('SearchOptions', [('deref', EnumV('DerefAliases', 'Finding')), ('typesonly', z3.Bool('to')), ('timelimit', z3.BitVec('tl', 32)), ('sizelimit', z3.BitVec('sl', 32))])
                c.run_fn('LdapConn::with_search_options', [conn, a]); c.run_fn('Ldap::with_search_options', [ldap2, clone_val(a)])
            elif m == 'with_controls':
                a = VecV([StructV('RawControl', [('ctype', StrV([z3.BitVec('oid', 8)])), ('crit', z3.Bool('crit')), ('val', NONE())])])
                c.run_fn('LdapConn::with_controls', [conn, a]); c.run_fn('Ldap::with_controls', [ldap2, clone_val(a)])
            elif m == 'last_id':
                return {'simple': (c.run_fn('LdapConn::last_id', [conn]), c.run_fn('Ldap::last_id', [ldap2])), 'calls': calls}
            elif m == 'stream_last_id':
                stream = StructV('SearchStream', [('ldap', ldap), ('rx', NONE()), ('state', EnumV('StreamState', 'Active')), ('adapters', VecV([])), ('ax', z3.BitVecVal(0, 64)), ('timeout', NONE()), ('res', NONE())])
                es = StructV('EntryStream', [('stream', stream), ('conn', conn)])
                return {'simple': (c.run_fn('EntryStream::last_id', [es]), c.run_fn('Ldap::last_id', [ldap2])), 'calls': calls}
            elif m == 'is_closed':
                closed = z3.Bool('closed')
                c.intercept = dict(ic); c.intercept['UnboundedSender::is_closed'] = lambda ctx, call, tx: closed
                return {'simple': (c.run_fn('LdapConn::is_closed', [conn]), c.run_fn('Ldap::is_closed', [ldap2])), 'calls': calls}
            return {'handles': (ldap, ldap2), 'calls': calls}
        finally:
            c.intercept = {}

    def oracle(self, d, out):
        if out[0] == 'panic': return [('no panic', FALSE)]
        o = out[1]; m = d['method']
        if 'simple' in o:
            a, b = o['simple']
            return [(f'{m} returns what the async accessor returns', eq_term(a, b) if not (z3.is_expr(a) and z3.is_expr(b)) else a == b)]
        if 'handles' in o:
            a, b = o['handles']
            return [(f'{m} stores into the same handle fields as the async version', and_all([eq_term(a.fields[k], b.fields[k]) for k in ('timeout', 'controls', 'search_opts', 'last_id')]))]
        calls = o['calls']
        want = m if m in METHODS else {'next': 'stream.next', 'result': 'stream.finish'}[m]
        obs = [('the wrapper blocks its own runtime exactly once', z3.BoolVal(len(o['blocks']) == 1 and o['blocks'][0] is o['rt'])),
               ('exactly one call is forwarded, to the same-named async method', z3.BoolVal(len(calls) == 1 and calls[0][0] == want))]
        if len(calls) != 1 or calls[0][0] != want:
            return obs
        _, args, raw = calls[0]
        target = o['stream'] if m in STREAM_METHODS else o['ldap']
        obs.append(("forwarded on the wrapper's own handle / stream", z3.BoolVal(args[0] is target)))
        for i, (got, sent) in enumerate(zip(args[1:], o['args'])):
            same = (got is sent) or (z3.is_expr(got) and z3.is_expr(sent) and got.eq(sent)) or (isinstance(got, (StrV, VecV, EnumV)) and isinstance(sent, type(got)) and z3.is_true(z3.simplify(eq_term(got, sent))))
            obs.append((f'argument {i + 1} passed through unchanged', z3.BoolVal(bool(same))))
        obs.append(('same number of arguments', z3.BoolVal(len(args) - 1 == len(o['args']))))
        r = o['ret']
        if m in ('streaming_search', 'streaming_search_with'):
            if d['ok']:
                good = isinstance(r, EnumV) and r.variant == 'Ok' and isinstance(deref(r.fields[0]), StructV) and deref(r.fields[0]).ty == 'EntryStream' and deref(r.fields[0]).fields['stream'] is o['tok'] and deref(deref(r.fields[0]).fields['conn']) is o['conn']
            else:
                good = isinstance(r, EnumV) and r.variant == 'Err'
        elif m == 'result':
            good = r is o['tok']
        else:
            good = isinstance(r, EnumV) and ((r.variant == 'Ok' and r.fields[0] is o['tok']) if d['ok'] else r.variant == 'Err')
        obs.append(('the wrapper returns exactly the value (or error) of the async method', z3.BoolVal(bool(good))))
        return obs

    def case(self, cd):
        """native differential scenarios for the method (scripted peer; both APIs)"""
        m = cd['method']
        ok = lambda tag: {'cl': 1, 'id': tag, 'c': [{'cl': 0, 'id': 10, 'p': [0]}, {'cl': 0, 'id': 4, 'p': []}, {'cl': 0, 'id': 4, 'p': []}]}
        bind = {'do': 'simple_bind', 'dn': 'cn=x', 'pw': 'p'}
        step = {'simple_bind': bind, 'sasl_external_bind': {'do': 'sasl_external_bind'}, 'delete': {'do': 'delete', 'dn': 'dc=x'}, 'compare': {'do': 'compare', 'dn': 'dc=x'},
                'extended': {'do': 'whoami'}, 'abandon': {'do': 'abandon', 'id': 1}, 'unbind': {'do': 'unbind'}, 'modifydn': {'do': 'modifydn', 'dn': 'cn=o'}, 'add': {'do': 'add', 'dn': 'cn=o'},
                'modify': {'do': 'modify', 'dn': 'cn=o'}, 'search': {'do': 'search', 'base': 'dc=x', 'scope': 2, 'filter': '(a=b)', 'attrs': ['cn']}, 'last_id': {'do': 'last_id'}, 'is_closed': {'do': 'is_closed'}}
        resp = {'simple_bind': 1, 'sasl_external_bind': 1, 'delete': 11, 'compare': 15, 'extended': 24, 'modifydn': 13, 'add': 9, 'modify': 7}
        entry = {'cl': 1, 'id': 4, 'c': [{'cl': 0, 'id': 4, 'p': [99, 110]}, {'cl': 0, 'id': 16, 'c': []}]}
        ref = {'cl': 1, 'id': 19, 'c': [{'cl': 0, 'id': 4, 'p': list(b'ldap://x/')}]}
        search_replies = [{'id': 'req', 'op': entry}, {'id': 'req', 'op': ref}, {'id': 'req', 'op': ok(5)}]
        scen = []
        if m in step and m not in ('last_id', 'is_closed', 'search'):
            scen.append({'name': 'answered', 'steps': [bind, step[m], {'do': 'last_id'}], 'server': [{'replies': [{'id': 'req', 'op': ok(1)}]}, {'replies': ([{'id': 'req', 'op': ok(resp[m])}] if m in resp else [])}]})
            scen.append({'name': 'peer closes before the operation', 'steps': [bind, {'do': 'delete', 'dn': 'dc=x'}, step[m], step[m], {'do': 'is_closed'}],
                         'server': [{'replies': [{'id': 'req', 'op': ok(1)}]}, {'replies': [], 'close_after': True}]})
        if m == 'modifydn':
            # argument shapes: new superior absent / empty (move under the root) / given; keep or delete the old RDN; empty DN
            for k, (ns, dl, dn) in enumerate([(None, True, 'cn=o'), ('', True, 'cn=o'), ('', False, ''), ('dc=s', False, 'cn=o')]):
                scen.append({'name': f'modifydn new_sup={ns!r} delete_old={dl} dn={dn!r}', 'steps': [bind, {'do': 'modifydn', 'dn': dn, 'rdn': 'cn=n', 'delete_old': dl, 'new_sup': ns}],
                             'server': [{'replies': [{'id': 'req', 'op': ok(1)}]}, {'replies': [{'id': 'req', 'op': ok(13)}]}]})
        if m in ('delete', 'compare', 'simple_bind', 'add', 'modify'):
            e = dict(step[m]); e['dn'] = ''
            if m == 'simple_bind': e['pw'] = ''
            scen.append({'name': 'empty strings', 'steps': [bind, e], 'server': [{'replies': [{'id': 'req', 'op': ok(1)}]}, {'replies': [{'id': 'req', 'op': ok(resp[m])}]}]})
        if m in ('search', 'streaming_search', 'streaming_search_with', 'next', 'result', 'stream_last_id'):
            for ad in ([], ['EntriesOnly']):
                scen.append({'name': f'stream read to the end, adapters={ad}', 'steps': [bind, {'do': 'stream_start', 'adapters': ad, 'base': 'dc=x', 'scope': 2, 'filter': '(a=b)', 'attrs': ['cn']},
                                                                                     {'do': 'next'}, {'do': 'next'}, {'do': 'next'}, {'do': 'stream_last_id'}, {'do': 'finish'}],
                             'server': [{'replies': [{'id': 'req', 'op': ok(1)}]}, {'replies': search_replies}]})
            scen.append({'name': 'search()', 'steps': [bind, step['search']], 'server': [{'replies': [{'id': 'req', 'op': ok(1)}]}, {'replies': search_replies}]})
        if m in ('last_id', 'is_closed', 'with_timeout', 'with_controls', 'with_search_options'):
            scen.append({'name': 'accessors', 'steps': [bind, {'do': 'last_id'}, {'do': 'is_closed'}, {'do': 'with_controls', 'ctrls': [{'oid': '1.2', 'crit': True, 'val': None}]}, {'do': 'delete', 'dn': 'dc=x'}, {'do': 'delete', 'dn': 'dc=y'}],
                         'server': [{'replies': [{'id': 'req', 'op': ok(1)}]}, {'replies': [{'id': 'req', 'op': ok(11)}]}, {'replies': [{'id': 'req', 'op': ok(11)}]}]})
        return {'cmd': 'async:syncdiff', 'method': m, 'scenarios': scen}

    def native_outcome(self, cd, j):
        if j['outcome'] == 'panic': return native_panic(j)
        v = j['value']
        # the differential replay runs the method through both APIs against the same scripted peer
        same = v.get('same')
        if same is None:
            raise RuntimeError('no native differential scenario for ' + cd['method'])
        if same:
            raise RuntimeError('native sync/async differential shows no difference for ' + cd['method'])
        return ('ret', {'calls': [], 'blocks': [], 'rt': None, 'native_diff': v})

    def summary(self, out, model=None):
        if out[0] == 'panic': return {'panic': out[1].msg}
        o = out[1]
        if 'native_diff' in o: return o['native_diff']
        return {'forwarded': [c_[0] for c_ in o.get('calls', [])]}

    def in_summary(self, d, model=None):
        return d

    def regions(self, d, out):
        return [d['method']]

    def key(self, obname, out):
        return Lane.key(self, obname, out) + ':' + getattr(self, '_m', '')

    def run(self):
        r = Lane.run(self); self._m = r[0]['method']; return r


def body(chk):
    allm = list(METHODS) + STREAM_METHODS + SIMPLE
    run_lane(chk, SyncWrappers, (), bounds={'methods': allm, 'async callee': 'uninterpreted: records arguments, resolves to Ok(token) or Err(token)', 'arguments': 'strings of 0..2 symbolic bytes, every scope, 0..2 attributes, optional strings None / Some("") / Some(1 byte), symbolic scalars, opaque tokens for generic values'},
             selftest=False, need_regions=tuple(allm))
    chk.assumptions += [
        'Runtime::block_on(f) is modelled as "poll f to completion"; the tokio runtime itself, and therefore equality of wire bytes, rests on the forwarded call being the only effect (trusted)',
        'connection establishment (LdapConn::new/with_settings/from_url*) is covered by C18; sasl_gssapi_bind / sasl_ntlm_bind are feature-gated and not built',
        'the async methods are uninterpreted here (their behaviour is C02/C10): this check decides forwarding, not what the async method does',
    ]


if __name__ == '__main__':
    run_check('C14', body)
