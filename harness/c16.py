"""C16 The PagedResults adapter returns the whole result set exactly once (lane B3, scripted pages).
stream.start / next / finish run from coroutine MIR through the adapter chain (PagedResults alone or behind
EntriesOnly); every search request the adapter issues goes through the real start_inner / op_call and is
recorded at the request channel; each recorded request is answered by the next scripted page."""
import z3
from .framework import *
from .lane import Lane, run_lane
from . import ber
from .c19 import enc_all
from .scenarios import script, step, BIND, BIND_OK, okres, stream_start
from .streams import mk_handle, poll
from mirsym.values import *
from mirsym.engine import TRUE, FALSE, clone_val
from mirsym.models import eq_term, and_all, or_all
from mirsym.models_async import Tok, EnvFut, PENDING, channel

T = ber.prim
C = ber.cons
S = ber.bstr
PR_OID = '1.2.840.113556.1.4.319'


def iv(x):
    return x if isinstance(x, int) else conc(x)


class Runaway(Exception):
    """the adapter keeps issuing search requests after the scripted pages (and one extra, answered by a closed channel) are used up"""


class Paged(Lane):
    name = 'C16.paged_results'

    def __init__(self, ctx, maxpages, maxentries, chained, sizebits=16):
        Lane.__init__(self, ctx, maxpages, maxentries, chained, sizebits)
        self.maxpages = maxpages; self.maxentries = maxentries; self.chained = chained; self.sizebits = sizebits

    def inputs(self):
        c = self.c
        npages = 1 + c.choose(self.maxpages, 'npages')
        pages = []
        for k in range(npages):
            ne = c.choose(self.maxentries + 1, f'ne{k}')
            last = k == npages - 1
            cookie = [] if last else [z3.BitVec(f'ck{k}_{i}', 8) for i in range(1 + (c.choose(2, f'cklen{k}') if self.maxentries > 1 else 0))]
            other = bool(c.choose(2, f'other{k}'))
            pages.append({'entries': [z3.BitVec(f'e{k}_{i}', 8) for i in range(ne)], 'cookie': cookie, 'other': other, 'rc': z3.BitVec(f'rc{k}', 8)})
        size = z3.BitVec('psize', self.sizebits)          # 16 bits: 1..65535, INTEGER content of one, two and three octets (127/128 and 32767/32768 boundaries)
        d = {'pages': pages, 'size': z3.ZeroExt(32 - self.sizebits, size), 'user_ctrl': bool(c.choose(2, 'user_ctrl')), 'user_paged': bool(c.choose(2, 'user_paged')) if npages == 1 else False,
             'opts': bool(c.choose(2, 'opts')), 'chained': self.chained and bool(c.choose(2, 'chained'))}
        c.assume(size >= 1)
        # early finish while a later page is in flight: read page 1 and the first entry of page 2, then finish()
        d['early'] = bool(npages >= 2 and len(pages[1]['entries']) >= 1 and not d['user_paged'] and c.choose(2, 'early'))
        return d

    def page_items(self, pg):
        items = []
        for e in pg['entries']:
            items.append(Tup([EnumV('SearchItem', 'Entry', [C(1, 4, [T(0, 4, [e]), C(0, 16, [])])]), VecV([])]))
        val = enc_all(C(0, 16, [T(0, 2, [bv(0, 8)]), T(0, 4, pg['cookie'])]))
        ctrls = []
        if pg['other']:
            ctrls.append(StructV('Control', [(0, NONE()), (1, StructV('RawControl', [('ctype', StrV(S('9.9'))), ('crit', FALSE), ('val', NONE())]))]))
        ctrls.append(StructV('Control', [(0, Some(EnumV('ControlType', 'PagedResults'))), (1, StructV('RawControl', [('ctype', StrV(S(PR_OID))), ('crit', FALSE), ('val', Some(VecV(val)))]))]))
        res = StructV('LdapResult', [('rc', z3.ZeroExt(24, pg['rc'])), ('matched', StrV([])), ('text', StrV([])), ('refs', VecV([])), ('ctrls', VecV([]))])
        items.append(Tup([EnumV('SearchItem', 'Done', [res]), VecV(ctrls)]))
        return items

    def execute(self, d):
        c = self.c
        ld, tx, stx = mk_handle(c)
        uc = []
        if d['user_ctrl']:
            uc.append(StructV('RawControl', [('ctype', StrV(S('2.2'))), ('crit', TRUE), ('val', Some(VecV([bv(7, 8)])))]))
        if d['user_paged']:
            uc.append(StructV('RawControl', [('ctype', StrV(S(PR_OID))), ('crit', FALSE), ('val', NONE())]))
        if uc: ld.fields['controls'] = Some(VecV(uc))
        if d['opts']:
            ld.fields['search_opts'] = Some(StructV('SearchOptions', [('deref', EnumV('DerefAliases', 'Finding')), ('typesonly', TRUE), ('timelimit', z3.BitVecVal(9, 32)), ('sizelimit', z3.BitVecVal(70, 32))]))
        # adapters are built by their real constructors
        pr = c.run_fn('PagedResults::new', [d['size']])
        ads = [Tup([Tup([BoxV([pr])])])]
        if d['chained']:
            ads = [Tup([Tup([BoxV([c.run_fn('EntriesOnly::new', [])])])])] + ads
        st = StructV('SearchStream', [('ldap', ld), ('rx', NONE()), ('state', EnumV('StreamState', 'Fresh')), ('adapters', VecV(ads)), ('ax', z3.BitVecVal(0, 64)), ('timeout', NONE()), ('res', NONE())])
        requests = []

        def send_env(ctx, t, val):
            t.sent.append(val)
            if t.name == 'req':
                op = deref(val[1])
                if op.variant == 'Search':
                    k = len(requests)
                    if k > len(d['pages']) + 1: raise Runaway()
                    requests.append({'id': val[0], 'tag': val[2], 'ctrls': val[3]})
                    itx = deref(op.fields[0])
                    itx.peer.queue = self.page_items(d['pages'][k]) if k < len(d['pages']) else ['closed']
            return Ok(UNIT)

        def recv_env(ctx, f):
            q = f.rx.queue
            if not q: return PENDING
            x = q.pop(0)
            if isinstance(x, str):
                q.insert(0, x); return NONE()
            return Some(x)
        ack = lambda ctx, f: Ok(Tup([EnumV('Tag', 'Null', [StructV('Null', [('id', bv(5, 64)), ('class', ber.cls(0)), ('inner', UNIT)])]), VecV([])]))
        c.env = {'send': send_env, 'recv': recv_env, 'recv_oneshot': ack}
        got = []; fin = None; start = None
        try:
            start = poll(c, c.run_fn('SearchStream::start', [st, StrV(S('dc=x')), EnumV('Scope', 'OneLevel'), StrV(S('(a=b)')), VecV([StrV(S('cn'))])]))
            sv = start.fields[0] if start.variant == 'Ready' else None
            if sv is not None and sv.variant == 'Ok':
                ncalls = (len(d['pages'][0]['entries']) + 1) if d.get('early') else sum(len(p['entries']) for p in d['pages']) + 3
                for _ in range(ncalls):
                    r = poll(c, c.run_fn('SearchStream::next', [st]))
                    if r.variant != 'Ready': got.append('pending'); break
                    v = r.fields[0]
                    if v.variant != 'Ok': got.append(('err', deref(v.fields[0]).variant if isinstance(deref(v.fields[0]), EnumV) else 'err')); break
                    if v.fields[0].variant == 'None': break
                    got.append(v.fields[0].fields[0])
                fin = poll(c, c.run_fn('SearchStream::finish', [st]))
        except Runaway:
            got.append('runaway')
        finally:
            c.env = {}
        return {'start': start, 'entries': got, 'finish': fin, 'requests': requests, 'scrubs': list(stx.sent)}

    def paged_ctrl(self, d, cookie):
        from .c07 import TagVariants
        val = enc_all(C(0, 16, [T(0, 2, TagVariants.ref_int_octets(self.c, z3.SignExt(32, d['size']))), T(0, 4, cookie)]))
        return StructV('RawControl', [('ctype', StrV(S(PR_OID))), ('crit', FALSE), ('val', Some(VecV(val)))])

    def oracle(self, d, out):
        if out[0] == 'panic': return [('no panic', FALSE)]
        o = out[1]; st = o['start']
        sv = st.fields[0] if st is not None and st.variant == 'Ready' else None
        if d['user_paged']:
            good = sv is not None and sv.variant == 'Err' and deref(sv.fields[0]).variant == 'AdapterInit'
            return [('a caller-supplied paging control is rejected when the search starts', z3.BoolVal(bool(good))), ('...before anything is sent', z3.BoolVal(len(o['requests']) == 0))]
        if sv is None or sv.variant != 'Ok':
            return [('the paged search starts', FALSE)]
        if d.get('early'):
            return self.oracle_early(d, o)
        obs = []
        want = [e for p in d['pages'] for e in p['entries']]
        ents = o['entries']
        obs.append(('every entry of every page is yielded exactly once, nothing else', z3.BoolVal(len(ents) == len(want) and all(not isinstance(x, (str, tuple)) for x in ents))))
        if len(ents) == len(want) and all(not isinstance(x, (str, tuple)) for x in ents):
            for g, w in zip(ents, want):
                obs.append(('entries come in server order across pages', eq_term(g.nth(0), C(1, 4, [T(0, 4, [w]), C(0, 16, [])]))))
        reqs = o['requests']
        obs.append(('one search request per page: paging stops at the first empty cookie', z3.BoolVal(len(reqs) == len(d['pages']))))
        user = [StructV('RawControl', [('ctype', StrV(S('2.2'))), ('crit', TRUE), ('val', Some(VecV([bv(7, 8)])))])] if d['user_ctrl'] else []
        for k, rq in enumerate(reqs[:len(d['pages'])]):
            cookie = [] if k == 0 else d['pages'][k - 1]['cookie']
            wantc = Some(VecV(user + [self.paged_ctrl(d, cookie)]))
            obs.append((f'request {k + 1} carries the other controls plus the paging control (size, ' + ('empty cookie' if k == 0 else 'the cookie the server last returned') + ')', eq_term(rq['ctrls'], wantc)))
            if k > 0:
                obs.append((f'request {k + 1} repeats base, scope, filter, attributes and options of the first', eq_term(rq['tag'], reqs[0]['tag'])))
        fin = o['finish']
        if fin is not None and fin.variant == 'Ready' and len(reqs) == len(d['pages']):
            res = fin.fields[0]; lastp = d['pages'][-1]
            obs.append(('the final result is the last page\'s result', res.fields['rc'] == z3.ZeroExt(24, lastp['rc'])))
            nother = 1 if lastp['other'] else 0
            noprc = all(not (deref(x.nth(0)).variant == 'Some') for x in res.fields['ctrls'].items)
            obs.append(('the final result carries no paging control (other controls kept)', z3.BoolVal(noprc and len(res.fields['ctrls'].items) == nother)))
        return obs

    def oracle_early(self, d, o):
        """the caller stops reading while page 2 is in flight and calls finish()"""
        reqs = o['requests']; obs = []
        n1 = len(d['pages'][0]['entries'])
        ents = o['entries']
        obs.append(('the entries read before the early finish are page 1 followed by the first entry of page 2', z3.BoolVal(len(ents) == n1 + 1 and all(not isinstance(x, (str, tuple)) for x in ents))))
        obs.append(('two search requests were issued when the caller stopped', z3.BoolVal(len(reqs) == 2)))
        fin = o['finish']
        if fin is not None and fin.variant == 'Ready':
            obs.append(('finish() before the end of the result set yields the synthetic result 88', fin.fields[0].fields['rc'] == 88))
        if len(reqs) == 2:
            cur = reqs[1]['id']
            obs.append(('the early finish scrubs exactly the ID of the page request in flight (so that it is released)', z3.BoolVal(len(o['scrubs']) == 1) if len(o['scrubs']) != 1 else o['scrubs'][0] == cur))
        return obs

    # ---- native replay: same page script against the scripted peer
    def scenario(self, cd):
        pr_val = lambda cookie: ber.py_encode({'cl': 0, 'id': 16, 'c': [{'cl': 0, 'id': 2, 'p': [0]}, {'cl': 0, 'id': 4, 'p': cookie}]})
        server = [BIND_OK]
        for pg in cd['pages']:
            reps = [{'id': 'req', 'op': {'cl': 1, 'id': 4, 'c': [{'cl': 0, 'id': 4, 'p': [iv(e)]}, {'cl': 0, 'id': 16, 'c': []}]}} for e in pg['entries']]
            ctrls = ([{'cl': 0, 'id': 16, 'c': [{'cl': 0, 'id': 4, 'p': list(b'9.9')}]}] if pg['other'] else []) + [{'cl': 0, 'id': 16, 'c': [{'cl': 0, 'id': 4, 'p': list(PR_OID.encode())}, {'cl': 0, 'id': 4, 'p': pr_val([iv(x) for x in pg['cookie']])}]}]
            reps.append({'id': 'req', 'op': okres(5, iv(pg['rc']) % 100), 'ctrls': ctrls})
            server.append({'replies': reps})
        steps = [BIND]
        uc = ([{'oid': '2.2', 'crit': True, 'val': [7]}] if cd['user_ctrl'] else []) + ([{'oid': PR_OID, 'crit': False, 'val': None}] if cd['user_paged'] else [])
        if uc: steps.append({'do': 'with_controls', 'ctrls': uc})
        if cd['opts']: steps.append({'do': 'with_search_options'})
        ads = (['EntriesOnly'] if cd['chained'] else []) + [{'Paged': max(1, iv(cd['size']))}]
        steps.append(stream_start(ads))
        n = sum(len(p['entries']) for p in cd['pages'])
        steps += [{'do': 'next'}] * (n + 1) + [{'do': 'finish'}]
        return script(steps, server)

    def replay_by_role(self, cd, obname, out, model):
        if cd.get('early'):
            case = self.scenario(cd)
            n1 = len(cd['pages'][0]['entries'])
            steps = [s_ for s_ in case['steps'] if s_['do'] not in ('next', 'finish')] + [{'do': 'next'}] * (n1 + 1) + [{'do': 'finish'}, {'do': 'snapshot'}, {'do': 'delete', 'dn': 'dc=after'}]
            # page 2 is left open at the server: no SearchResultDone for it
            server = list(case['server'])
            if len(server) >= 3: server[2] = {'replies': server[2]['replies'][:1]}
            server = server[:3] + [{'replies': [{'id': 'req', 'op': okres(11, 6)}]}]
            case = script(steps, server)
            v = native([case])[0]['value']
            sn = step(v, 'snapshot'); fin = step(v, 'finish'); bad = None
            if sn and sn['inuse']: bad = f'after an early finish() on page 2 message IDs {sn["inuse"]} are still reserved'
            elif not (isinstance(fin, dict) and fin.get('ok', {}).get('rc') == 88): bad = f'early finish() returned {json.dumps(fin)[:80]}'
            return bool(bad), 'paged:early-finish', f'PagedResults finished early on page 2: {bad}' if bad else None, case, {'native_steps': v['steps'][-4:]}
        case = self.scenario(cd)
        v = native([case])[0]['value']
        n = sum(len(p['entries']) for p in cd['pages'])
        nexts = [s_['r'] for s_ in v['steps'] if s_['do'] == 'next']
        st = step(v, 'stream_start'); fin = step(v, 'finish'); bad = None
        if cd['user_paged']:
            if not (isinstance(st, dict) and st.get('err') == 'AdapterInit'): bad = f'start with a caller-supplied paging control returned {json.dumps(st)[:80]}'
        else:
            got = [x for x in nexts if isinstance(x, dict) and x.get('ok')]
            nreq = len(v['requests']) - 1
            if len(got) != n: bad = f'{len(got)} entries yielded, server sent {n} over {len(cd["pages"])} page(s)'
            elif nreq != len(cd['pages']): bad = f'{nreq} search requests for {len(cd["pages"])} page(s)'
            else:
                # follow-up requests must equal the first one except for the message ID and the cookie
                def strip(req):
                    t, _ = ber.py_decode(req)
                    return json.dumps(t['c'][1]), [json.dumps(x) for x in (t['c'][2]['c'][:-1] if len(t['c']) > 2 else [])]
                first = strip(v['requests'][1])
                for k in range(2, nreq + 1):
                    if strip(v['requests'][k]) != first: bad = f'request {k} differs from the first one in base/scope/filter/attributes/options/other controls'
                # the paging control of request k: the requested size and the cookie of page k-1
                for k in range(1, nreq + 1):
                    if bad: break
                    t, _ = ber.py_decode(v['requests'][k])
                    cs = t['c'][2]['c'] if len(t['c']) > 2 else []
                    pc = [c_ for c_ in cs if bytes(c_['c'][0]['p']) == PR_OID.encode()]
                    if len(pc) != 1: bad = f'request {k} carries {len(pc)} paging controls'; break
                    val, _ = ber.py_decode(pc[0]['c'][-1]['p'])
                    size = int.from_bytes(bytes(val['c'][0]['p']), 'big', signed=True); cookie = list(val['c'][1]['p'])
                    wsize = max(1, iv(cd['size'])); wcookie = [] if k == 1 else [iv(x) for x in cd['pages'][k - 2]['cookie']]
                    if size != wsize: bad = f'request {k} asks for a page size of {size} instead of the requested {wsize}'
                    elif cookie != wcookie: bad = f'request {k} carries cookie {cookie} instead of {wcookie}'
                if not bad and isinstance(fin, dict) and any(cc.get('known') == 'PagedResults' for cc in fin.get('ok', {}).get('ctrls', [])): bad = 'the final result still carries the paging control'
        return bool(bad), 'paged:' + obname[:50], f'PagedResults over {len(cd["pages"])} page(s): {bad}' if bad else None, case, {'native_steps': v['steps'][-4:], 'requests': len(v['requests'])}

    def case(self, cd): return self.scenario(cd)

    def concrete_vectors(self, rng):
        B = lambda x: z3.BitVecVal(x, 8)
        mk = lambda pages, **kw: dict({'pages': [{'entries': [B(e) for e in es], 'cookie': [B(x) for x in ck], 'other': oth, 'rc': B(rc)} for es, ck, oth, rc in pages],
                                       'size': z3.BitVecVal(kw.pop('size', 5), 32), 'user_ctrl': False, 'user_paged': False, 'opts': False, 'chained': False}, **kw)
        return [mk([([65, 66], [], False, 0)]),
                mk([([65], [1], True, 0), ([], [2, 3], False, 0), ([67, 68], [], True, 4)], user_ctrl=True, opts=True, size=100),
                mk([([70], [9], False, 0), ([71], [], False, 0)], chained=True, size=1),
                mk([([], [], False, 0)], user_paged=True)]

    def native_outcome(self, cd, nj):
        v = nj['value']
        nexts = [s_['r'] for s_ in v['steps'] if s_['do'] == 'next']
        st = step(v, 'stream_start'); fin = step(v, 'finish')
        ents = [bytes(x['ok']['entry']['c'][0]['p'])[0] if False else x['ok']['entry'] for x in nexts if isinstance(x, dict) and x.get('ok')]
        return ('native', {'entries': [e['c'][0]['p'][0] for e in ents], 'requests': max(0, len(v['requests']) - 1), 'start': 'Ok' if isinstance(st, dict) and 'ok' in st else st.get('err'),
                           'rc': fin['ok']['rc'] if isinstance(fin, dict) and 'ok' in fin and isinstance(st, dict) and 'ok' in st else None,
                           'final_ctrls': len(fin['ok']['ctrls']) if isinstance(fin, dict) and 'ok' in fin and isinstance(st, dict) and 'ok' in st else None})

    def summary(self, out, model=None):
        if out[0] == 'panic': return {'panic': out[1].msg}
        if out[0] == 'native': return out[1]
        o = out[1]
        sv = o['start'].fields[0] if o['start'] is not None and o['start'].variant == 'Ready' else None
        start = 'Pending' if sv is None else ('Ok' if sv.variant == 'Ok' else deref(sv.fields[0]).variant)
        ents = []
        for x in o['entries']:
            if isinstance(x, (str, tuple)): ents.append(str(x)); continue
            b = x.nth(0).fields['payload'].fields[0].items[0].fields['payload'].fields[0].items[0]
            ents.append(ev(model, b) if model is not None else (conc(b) if conc(b) is not None else '?'))
        fin = o['finish']
        rc = fin.fields[0].fields['rc'] if fin is not None and fin.variant == 'Ready' else None
        return {'entries': ents, 'requests': len(o['requests']), 'start': start,
                'rc': None if rc is None else (ev(model, rc) if model is not None else (conc(rc) if conc(rc) is not None else '?')),
                'final_ctrls': len(fin.fields[0].fields['ctrls'].items) if rc is not None else None}

    def in_summary(self, d, model=None):
        return {'pages': [len(p['entries']) for p in d['pages']], 'user_ctrl': d['user_ctrl'], 'user_paged': d['user_paged'], 'opts': d['opts'], 'chained': d['chained'], 'early_finish': d.get('early')}

    def regions(self, d, out):
        return [f'pages={len(d["pages"])}'] + (['chained'] if d['chained'] else []) + (['user-paged'] if d['user_paged'] else []) + (['early-finish'] if d.get('early') else [])


def body(chk):
    quick = chk.tier == 'quick'
    p = (3, 1, True)
    run_lane(chk, Paged, p, bounds={'pages': f'1..{p[0]}', 'entries per page': f'0..{p[1]} (incl. an empty first page)', 'cookies': ('1' if p[1] <= 1 else '1..2') + ' symbolic byte(s) each, consecutive pages may return the same cookie; empty on the last page',
                                    'page size': '1..65535 symbolic', 'other request controls / search options / other response controls': 'present or absent', 'chaining': 'alone or behind EntriesOnly'},
             selftest=True, need_regions=('pages=1', 'pages=3', 'chained', 'user-paged', 'early-finish'))
    if not quick:
        for p2 in (tier_param('C16', (4, 1, True, 7)), tier_param('C16B', (3, 2, True, 7))):
            run_lane(chk, Paged, p2, bounds={'pages': f'1..{p2[0]}', 'entries per page': f'0..{p2[1]}', 'cookies': '1..2 symbolic bytes each, consecutive pages may return the same cookie; empty on the last page', 'page size': '1..127 symbolic',
                                         'other request controls / search options / other response controls': 'present or absent', 'chaining': 'alone or behind EntriesOnly'}, selftest=False, need_regions=('pages=3', 'chained'))
    chk.assumptions += [
        'lane B3 with scripted pages: the adapter chain, SearchStream shims, start_inner, op_call and the paging control codec run from MIR; the request channel records every search request and hands its item channel the next scripted page; the driver\'s acknowledgement of a search start is a stub',
        'the filter is a fixed string (grammar: C08); pages/entries/cookies bounded as stated',
        'counterexamples are reproduced with the same page script against a scripted in-process peer (requests compared on the wire)',
    ]


if __name__ == '__main__':
    run_check('C16', body)
