"""Reference BER (X.690, definite length) written for the checks — never calls the code under
test.  Three forms: concrete python (bytes <-> trees), shape-generic encoder over symbolic leaves,
and a forking decoder over a symbolic buffer (decisions go through the executor's solver)."""
import z3
from mirsym.values import *
from mirsym.engine import TRUE, FALSE
from mirsym.models import eq_term, and_all, or_all

CLASSES = ['Universal', 'Application', 'Context', 'Private']


class OutOfScope(Exception):
    pass


# ------------------------------------------------------------------ value constructors

def cls(n):
    return EnumV('TagClass', CLASSES[n])


def prim(c, idn, bs):
    return StructV('StructureTag', [('class', cls(c) if isinstance(c, int) else c),
                                    ('id', bv(idn, 64) if isinstance(idn, int) else idn),
                                    ('payload', EnumV('PL', 'P', [VecV(list(bs))]))])


def cons(c, idn, kids):
    return StructV('StructureTag', [('class', cls(c) if isinstance(c, int) else c),
                                    ('id', bv(idn, 64) if isinstance(idn, int) else idn),
                                    ('payload', EnumV('PL', 'C', [VecV(list(kids))]))])


def B(x):
    return bv(x, 8)


def bstr(s):
    return [B(b) for b in (s.encode() if isinstance(s, str) else bytes(s))]


# ------------------------------------------------------------------ concrete python reference

def py_len_octets(n, form='min'):
    """definite length octets; form: 'min' | number of forced long-form octets (1..)"""
    if form == 'min':
        if n < 128: return [n]
        k = (n.bit_length() + 7) // 8
        return [0x80 | k] + list(n.to_bytes(k, 'big'))
    k = form
    return [0x80 | k] + list(n.to_bytes(k, 'big'))


def py_encode(t, form='min'):
    """t: replay-JSON tree {'cl','id','p'|'c'} -> bytes (list of ints)"""
    body = list(t['p']) if 'p' in t else [b for k in t['c'] for b in py_encode(k, form)]
    first = (t['cl'] << 6) | (0x20 if 'c' in t else 0) | t['id']
    assert t['id'] <= 30
    return [first] + py_len_octets(len(body), form) + body


def py_decode(bs, pos=0, end=None):
    """strict definite-length reference decoder -> (tree, next) | raises ValueError('incomplete'|'invalid')"""
    end = len(bs) if end is None else end
    if pos >= end: raise ValueError('incomplete')
    b0 = bs[pos]
    if b0 & 0x1f == 31: raise ValueError('hightag')
    if pos + 1 >= end: raise ValueError('incomplete')
    l0 = bs[pos + 1]
    if l0 < 128:
        L = l0; h = 2
    else:
        n = l0 & 0x7f
        if n == 0 or n == 127: raise ValueError('invalid')
        if pos + 2 + n > end: raise ValueError('incomplete')
        L = int.from_bytes(bytes(bs[pos + 2:pos + 2 + n]), 'big'); h = 2 + n
    if pos + h + L > end: raise ValueError('incomplete')
    t = {'cl': b0 >> 6, 'id': b0 & 0x1f}
    if b0 & 0x20:
        kids = []; p = pos + h; e = pos + h + L
        while p < e:
            try:
                k, p = py_decode(bs, p, e)
            except ValueError as ex:
                raise ValueError('invalid' if str(ex) == 'incomplete' else str(ex))
            kids.append(k)
        t['c'] = kids
    else:
        t['p'] = list(bs[pos + h:pos + h + L])
    return t, pos + h + L


# ------------------------------------------------------------------ shape-generic encoder (symbolic leaves)

def len_octets(n, form='min'):
    return [B(x) for x in py_len_octets(n, form)]


def ident_octet(clsv, constructed, idv):
    """clsv: EnumV TagClass (concrete variant); idv: 64-bit term with value <= 30"""
    c = CLASSES.index(clsv.variant)
    low = z3.Extract(7, 0, idv) if z3.is_bv(idv) and idv.size() == 64 else idv
    return z3.simplify(bv((c << 6) | (0x20 if constructed else 0), 8) | low)


def ref_encode(t, forms=None, path=()):
    """t: StructureTag value; forms: dict node-path -> length form ('min' or k).  -> list of byte terms"""
    t = deref(t)
    pl = t.fields['payload']
    if pl.variant == 'P':
        body = list(pl.fields[0].items)
    else:
        body = []
        for i, k in enumerate(pl.fields[0].items):
            body.extend(ref_encode(k, forms, path + (i,)))
    form = (forms or {}).get(path, 'min')
    return [ident_octet(t.fields['class'], pl.variant == 'C', t.fields['id'])] + len_octets(len(body), form) + body


# ------------------------------------------------------------------ forking reference decoder

def ref_header(c, sl, no_hightag=True):
    """-> ('incomplete',) | ('invalid',) | ('ok', cls_index, constructed, id_term, hdr_len, L) with L concrete <= available,
    or ('ok', ..., None) when the announced length exceeds what is there (=> incomplete for the caller)."""
    n = len(sl)
    if n < 1: return ('incomplete',)
    b0 = sl.at(0)
    if no_hightag:
        c.assume((b0 & 0x1f) != 31)
    ci = c.choose_int(z3.LShR(b0, 6), 0, 3)
    constructed = c.branch((b0 & 0x20) != 0)
    idt = z3.ZeroExt(56, b0 & 0x1f)
    if n < 2: return ('incomplete',)
    l0 = sl.at(1)
    if c.branch(z3.ULT(l0, 128)):
        L = c.choose_int(z3.ZeroExt(56, l0), 0, n - 2)
        return ('ok', ci, constructed, idt, 2, L)
    k = c.choose_int(z3.ZeroExt(56, l0 & 0x7f), 0, n - 2)
    if k == 0:
        raise OutOfScope('indefinite length')
    if k is None:
        # more length octets announced than bytes present; 0xFF is reserved
        if c.branch(l0 == 0xFF):
            raise OutOfScope('reserved length octet 0xFF')
        return ('incomplete',)
    bits = 8 * k
    Lt = sl.at(2) if k == 1 else z3.Concat(*[sl.at(2 + j) for j in range(k)])
    avail = n - 2 - k
    Lx = z3.ZeroExt(64, Lt)
    conds = [Lx == z3.BitVecVal(v, bits + 64) for v in range(0, avail + 1)] + [z3.UGT(Lx, z3.BitVecVal(avail, bits + 64))]
    j = c.decide(conds)
    return ('ok', ci, constructed, idt, 2 + k, j if j <= avail else None)


def ref_parse(c, sl, depth=0):
    """-> ('ok', tree, rest) | ('incomplete',) | ('invalid',)"""
    h = ref_header(c, sl)
    if h[0] != 'ok': return h
    _, ci, constructed, idt, hl, L = h
    if L is None: return ('incomplete',)
    content = sl.sub(hl, hl + L); rest = sl.sub(hl + L)
    if not constructed:
        return ('ok', prim(ci, idt, content.items()), rest)
    kids = []
    cur = content
    while len(cur) > 0:
        r = ref_parse(c, cur, depth + 1)
        if r[0] != 'ok':
            return ('invalid',)
        kids.append(r[1]); cur = r[2]
    return ('ok', cons(ci, idt, kids), rest)


# ------------------------------------------------------------------ misc

def tree_shapes(depth, width, maxp):
    """all tree shapes: ('p', n) | ('c', [shapes])"""
    prims = [('p', n) for n in range(maxp + 1)]
    if depth <= 1:
        return prims + [('c', [])]
    sub = tree_shapes(depth - 1, width, maxp)
    out = list(prims)
    import itertools
    for w in range(width + 1):
        for kids in itertools.product(sub, repeat=w):
            out.append(('c', list(kids)))
    return out


def count_nodes(sh):
    return 1 if sh[0] == 'p' else 1 + sum(count_nodes(k) for k in sh[1])
