"""C02 Each request on the wire is exactly the RFC 4511 PDU the caller asked for.
B1: the envelope encoder (LdapCodec::encode -> build_tag -> encode_into).
B2: the synchronous prefix of every operation builder (async fn executed from its coroutine MIR up
to the call of Ldap::op_call) and of op_call itself (up to the reply wait): the captured
(LdapOp, request) is encoded by the real codec and compared with a reference RFC 4511 encoding of
the call arguments; one-shot modifiers are consumed by the operation that uses them."""
import itertools
import z3
from .framework import *
from .lane import Lane, run_lane
from . import ber
from .c07 import TagVariants
from .c19 import enc_all, symb, strv, opt
from mirsym.values import *
from mirsym.engine import TRUE, FALSE, clone_val
from mirsym.models import eq_term, and_all, or_all, utf8_valid
from mirsym.models_async import Tok, EnvFut, PENDING, channel

S = ber.bstr
T = ber.prim
C = ber.cons


def mk_ldap(c, controls=None, timeout=None, search_opts=None, last=None):
    arr = z3.Array('inuse', z3.BitVecSort(32), z3.BoolSort())
    zs = ZSet(arr, 2)
    last = last if last is not None else z3.BitVec('last', 32)
    tx, rx = channel('req'); stx, srx = channel('scrub'); mtx, mrx = channel('misc')
    ld = StructV('Ldap', [('msgmap', Tup([Tup([Tup([last, zs])])])), ('tx', tx), ('id_scrub_tx', stx), ('misc_tx', mtx),
                          ('last_id', z3.BitVecVal(0, 32)), ('has_tls', FALSE), ('timeout', opt(timeout)), ('controls', opt(controls)), ('search_opts', opt(search_opts))])
    return ld, {'req': (tx, rx), 'scrub': (stx, srx)}


def raw_controls(c, n, tag='c'):
    cs = []
    for i in range(n):
        oid = symb(f'{tag}oid{i}_', 1 + i); c.assume(utf8_valid(oid))
        val = symb(f'{tag}v{i}_', i + 1) if c.choose(2, f'{tag}hasv{i}') else None
        cs.append({'oid': oid, 'crit': z3.Bool(f'{tag}crit{i}'), 'val': val})
    return cs


def controls_val(cs):
    return VecV([StructV('RawControl', [('ctype', strv(x['oid'])), ('crit', x['crit']), ('val', Some(VecV(x['val'])) if x['val'] is not None else NONE())]) for x in cs])


def ref_controls(cs):
    """[0] Controls: list of byte-lists alternatives is avoided: criticality is an If at tree level -> return trees per truth value"""
    out = []
    for x in cs:
        parts_t = [T(0, 4, x['oid']), T(0, 1, [bv(0xFF, 8)])] + ([T(0, 4, x['val'])] if x['val'] is not None else [])
        parts_f = [T(0, 4, x['oid'])] + ([T(0, 4, x['val'])] if x['val'] is not None else [])
        out.append((x['crit'], C(0, 16, parts_t), C(0, 16, parts_f)))
    return out


def ref_message(c, mid, op_tree, ctrls):
    """all reference encodings of LDAPMessage{mid, op, controls}: list of (condition, bytes)"""
    idb = TagVariants.ref_int_octets(c, z3.SignExt(32, mid))
    alts = [(TRUE, [])]
    if ctrls is not None:
        rc = ref_controls(ctrls)
        for crit, tt, tf in rc:
            alts = [(z3.And(cond, crit), acc + [tt]) for cond, acc in alts] + [(z3.And(cond, z3.Not(crit)), acc + [tf]) for cond, acc in alts]
    res = []
    for cond, trees in alts:
        parts = [T(0, 2, idb), op_tree] + ([C(2, 0, trees)] if ctrls is not None else [])
        res.append((cond, enc_all(C(0, 16, parts))))
    return res


def run_encode(c, mid, tag, ctrls_val):
    buf = BytesMutV([])
    r = c.run_fn('<LdapCodec as Encoder<(RequestId, Tag, MaybeControls)>>::encode', [StructV('LdapCodec', []), Tup([mid, tag, ctrls_val]), buf])
    if r.variant != 'Ok':
        raise PanicExc('encode', 'err', 'encoder returned Err')
    return list(buf.items)


def match_any(enc, alts):
    return or_all([z3.And(cond, eq_term(SliceV(enc), SliceV(ref))) if len(ref) == len(enc) else FALSE for cond, ref in alts])


# ---------------------------------------------------------------------------- B1: envelope

class Envelope(Lane):
    name = 'C02.envelope'

    def __init__(self, ctx, nctrl):
        Lane.__init__(self, ctx, nctrl); self.nctrl = nctrl

    def inputs(self):
        c = self.c
        mid = z3.BitVec('mid', 32); c.assume(z3.And(mid >= 1))
        n = c.choose(self.nctrl + 2, 'nctrl')           # 0 = None, k+1 = Some(k controls)
        ctrls = None if n == 0 else raw_controls(c, n - 1)
        # short bodies, and bodies that put the operation's and the envelope's length on the 127/128 form boundary
        lens = [2] + (list(range(118, 130)) if self.nctrl >= 0 else [])
        body = symb('op', lens[c.choose(len(lens), 'oplen')])
        op5 = z3.BitVec('optag', 5); c.assume(op5 != 31)
        op = T(1, z3.ZeroExt(59, op5), body)
        return {'mid': mid, 'ctrls': ctrls, 'op': op}

    def execute(self, inp):
        c = self.c
        tag = EnumV('Tag', 'StructureTag', [clone_val(inp['op'])])
        return {'wire': run_encode(c, inp['mid'], tag, Some(controls_val(inp['ctrls'])) if inp['ctrls'] is not None else NONE())}

    def oracle(self, inp, out):
        if out[0] == 'panic': return [('no panic', FALSE)]
        alts = ref_message(self.c, inp['mid'], inp['op'], inp['ctrls'])
        return [('one LDAPMessage: SEQUENCE { messageID, protocolOp, [0] controls only when given }, definite minimal lengths, criticality only when true', match_any(out[1]['wire'], alts))]

    def case(self, cinp):
        ctrls = None if cinp['ctrls'] is None else [{'oid': ints(x['oid']), 'crit': bool(z3.is_true(x['crit'])), 'val': None if x['val'] is None else ints(x['val'])} for x in cinp['ctrls']]
        return {'cmd': 'encode_msg', 'id': conc(cinp['mid']), 'tree': tree_json(cinp['op']), 'ctrls': ctrls}

    def native_outcome(self, cinp, j):
        if j['outcome'] == 'panic': return native_panic(j)
        return ('ret', {'wire': bvs(j['value']['bytes'])})

    def summary(self, out, model=None):
        if out[0] == 'panic': return {'panic': out[1].msg}
        e = (lambda t: ev(model, t)) if model is not None else conc
        return {'wire': [e(b) for b in out[1]['wire']]}

    def in_summary(self, inp, model=None):
        e = (lambda t: ev(model, t)) if model is not None else (lambda t: z3.is_true(t) if z3.is_bool(t) else conc(t))
        return {'id': e(inp['mid']), 'controls': None if inp['ctrls'] is None else [{'oid': [e(b) for b in x['oid']], 'crit': bool(e(x['crit'])), 'val': None if x['val'] is None else [e(b) for b in x['val']]} for x in inp['ctrls']]}

    def regions(self, inp, out):
        n = len(inp['op'].fields['payload'].fields[0].items)
        return ['no-controls' if inp['ctrls'] is None else f'controls-{len(inp["ctrls"])}'] + (['boundary-length'] if n > 100 else [])

    def concrete_vectors(self, rng):
        return [{'mid': z3.BitVecVal(m, 32), 'ctrls': cs, 'op': T(1, 10, bvs(b'dc'))} for m, cs in
                [(1, None), (127, []), (128, [{'oid': bvs(b'1.2'), 'crit': TRUE, 'val': None}]), (2147483647, [{'oid': bvs(b'1.2'), 'crit': FALSE, 'val': bvs(b'v')}, {'oid': bvs(b'3'), 'crit': TRUE, 'val': []}])]]


# ---------------------------------------------------------------------------- B2: builders

def poll_coro(c, coro):
    return c.run_fn(coro.body, [Tup([coro]), Opaque('Context')])


class Builders(Lane):
    """every operation builder up to its call of Ldap::op_call; the captured request is encoded by the
    real codec together with a symbolic message ID and compared with the reference PDU"""
    name = 'C02.builders'
    OPS = ['simple_bind', 'sasl_external_bind', 'delete', 'compare', 'modifydn', 'modifydn_newsup', 'add', 'add_empty', 'modify', 'modify_add_empty', 'extended', 'extended_noval', 'abandon', 'unbind', 'search']

    def __init__(self, ctx, slen):
        Lane.__init__(self, ctx, slen); self.slen = slen

    def u8s(self, name, n=None):
        c = self.c
        n = self.slen if n is None else n
        bs = symb(name, n); c.assume(utf8_valid(bs)); return bs

    def inputs(self):
        c = self.c
        op = self.OPS[c.choose(len(self.OPS), 'op')]
        d = {'op': op, 'mid': z3.BitVec('mid', 32)}
        c.assume(d['mid'] >= 1)
        if op == 'simple_bind': d.update(dn=self.u8s('dn'), pw=self.u8s('pw'))
        elif op == 'delete': d.update(dn=self.u8s('dn'))
        elif op == 'compare': d.update(dn=self.u8s('dn'), attr=self.u8s('at', 1), val=symb('va', self.slen))
        elif op.startswith('modifydn'): d.update(dn=self.u8s('dn'), rdn=self.u8s('rd'), delete_old=z3.Bool('delold'), new_sup=(self.u8s('ns') if op.endswith('newsup') else None))
        elif op in ('add', 'add_empty'):
            na = 1 + c.choose(2, 'nattrs')
            attrs = []
            for i in range(na):
                nv = 0 if (op == 'add_empty' and i == na - 1) else 1 + c.choose(2, f'nv{i}')
                vals = [symb(f'av{i}_{j}_', 1) for j in range(nv)]
                if nv == 2: c.assume(vals[0][0] != vals[1][0])       # a HashSet holds distinct values
                attrs.append((symb(f'an{i}_', 1), vals))
            d.update(dn=self.u8s('dn'), attrs=attrs)
        elif op in ('modify', 'modify_add_empty'):
            nm = 1 + c.choose(2, 'nmods')
            mods = []
            for i in range(nm):
                kind = ['Add', 'Delete', 'Replace', 'Increment'][c.choose(4, f'mk{i}')] if op == 'modify' else 'Add'
                if kind == 'Increment':
                    mods.append((kind, symb(f'mn{i}_', 1), [symb(f'mv{i}_', 1)]))
                else:
                    nv = 0 if op == 'modify_add_empty' else c.choose(3, f'mnv{i}')
                    if op == 'modify' and kind == 'Add' and nv == 0: nv = 1
                    vals = [symb(f'mv{i}_{j}_', 1) for j in range(nv)]
                    if nv == 2: c.assume(vals[0][0] != vals[1][0])
                    mods.append((kind, symb(f'mn{i}_', 1), vals))
            d.update(dn=self.u8s('dn'), mods=mods)
        elif op.startswith('extended'): d.update(name=self.u8s('xn'), val=(symb('xv', self.slen) if op == 'extended' else None))
        elif op == 'abandon': d.update(msgid=z3.BitVec('abid', 32))
        elif op == 'search':
            a = symb('fa', 1); c.assume(z3.And(z3.UGE(a[0], 0x61), z3.ULE(a[0], 0x7a)))
            v = symb('fv', 1); c.assume(z3.And(z3.UGE(v[0], 0x30), z3.ULE(v[0], 0x39)))
            hasopts = c.choose(2, 'hasopts')
            c.assume(d['mid'] < 128)          # the message-ID octets are exercised by the other operations
            tl = z3.SignExt(24, z3.BitVec('tl8', 8)) if self.slen <= 2 else z3.BitVec('tl', 32)
            d.update(base=self.u8s('ba'), scope=c.choose(3, 'scope'), fa=a, fv=v, filter=S('(') + a + S('=') + v + S(')'),
                     attrs=[self.u8s(f'sa{i}_', 1) for i in range(2 * c.choose(2, 'nsattrs'))],
                     opts=({'deref': c.choose(4, 'deref'), 'typesonly': z3.Bool('typesonly'), 'timelimit': tl, 'sizelimit': z3.BitVec('sl', 32)} if hasopts else None))
        return d

    def call(self, d, ld):
        """-> coroutine of the builder"""
        c = self.c; op = d['op']
        if op == 'simple_bind': return c.run_fn('Ldap::simple_bind', [ld, strv(d['dn']), strv(d['pw'])])
        if op == 'sasl_external_bind': return c.run_fn('Ldap::sasl_external_bind', [ld])
        if op == 'delete': return c.run_fn('Ldap::delete', [ld, strv(d['dn'])])
        if op == 'compare': return c.run_fn('Ldap::compare', [ld, strv(d['dn']), strv(d['attr']), VecV(d['val'])])
        if op.startswith('modifydn'): return c.run_fn('Ldap::modifydn', [ld, strv(d['dn']), strv(d['rdn']), d['delete_old'], opt(strv(d['new_sup'])) if d['new_sup'] is not None else NONE()])
        if op in ('add', 'add_empty'):
            return c.run_fn('Ldap::add', [ld, strv(d['dn']), VecV([Tup([VecV(n), SetV([VecV(v) for v in vs])]) for n, vs in d['attrs']])])
        if op in ('modify', 'modify_add_empty'):
            mods = []
            for kind, n, vs in d['mods']:
                mods.append(EnumV('Mod', kind, [VecV(n), VecV(vs[0])] if kind == 'Increment' else [VecV(n), SetV([VecV(v) for v in vs])]))
            return c.run_fn('Ldap::modify', [ld, strv(d['dn']), VecV(mods)])
        if op.startswith('extended'):
            return c.run_fn('Ldap::extended', [ld, StructV('Exop', [('name', Some(strv(d['name']))), ('val', Some(VecV(d['val'])) if d['val'] is not None else NONE())])])
        if op == 'abandon': return c.run_fn('Ldap::abandon', [ld, d['msgid']])
        if op == 'unbind': return c.run_fn('Ldap::unbind', [ld])
        if op == 'search':
            return c.run_fn('Ldap::streaming_search', [ld, strv(d['base']), EnumV('Scope', ['Base', 'OneLevel', 'Subtree'][d['scope']]), strv(d['filter']), VecV([strv(a) for a in d['attrs']])])

    def execute(self, d):
        c = self.c
        so = None
        if d.get('opts') is not None:
            o = d['opts']
            so = StructV('SearchOptions', [('deref', EnumV('DerefAliases', ['Never', 'Searching', 'Finding', 'Always'][o['deref']])), ('typesonly', o['typesonly']), ('timelimit', o['timelimit']), ('sizelimit', o['sizelimit'])])
        ld, chans = mk_ldap(c, search_opts=so)
        coro = self.call(d, ld)
        c.stop_at = ('Ldap::op_call',)
        try:
            r = poll_coro(c, coro)
            return {'stopped': False, 'result': r}
        except StopAtCall as e:
            handle, lop, tag = e.args
            lop = deref(lop)
            wire = None
            c.stop_at = ()
            wire = run_encode(c, d['mid'], clone_val(tag), NONE())
            return {'stopped': True, 'ldapop': lop, 'wire': wire, 'handle': deref(handle), 'orig': ld}
        finally:
            c.stop_at = ()

    def ref_ops(self, d):
        """-> list of alternative reference request trees (SET OF order is free)"""
        c = self.c; op = d['op']
        def sets(vs):
            return [C(0, 17, [T(0, 4, v) for v in perm]) for perm in itertools.permutations(vs)]
        if op == 'simple_bind': return [C(1, 0, [T(0, 2, [bv(3, 8)]), T(0, 4, d['dn']), T(2, 0, d['pw'])])]
        if op == 'sasl_external_bind': return [C(1, 0, [T(0, 2, [bv(3, 8)]), T(0, 4, []), C(2, 3, [T(0, 4, S('EXTERNAL')), T(0, 4, [])])])]
        if op == 'delete': return [T(1, 10, d['dn'])]
        if op == 'compare': return [C(1, 14, [T(0, 4, d['dn']), C(0, 16, [T(0, 4, d['attr']), T(0, 4, d['val'])])])]
        if op.startswith('modifydn'):
            out = []
            for b in (0xFF, 0):
                parts = [T(0, 4, d['dn']), T(0, 4, d['rdn']), T(0, 1, [bv(b, 8)])] + ([T(2, 0, d['new_sup'])] if d['new_sup'] is not None else [])
                out.append((d['delete_old'] if b else z3.Not(d['delete_old']), C(1, 12, parts)))
            return out
        if op == 'add':
            alts = [[]]
            for n, vs in d['attrs']:
                alts = [acc + [C(0, 16, [T(0, 4, n), s_])] for acc in alts for s_ in sets(vs)]
            return [C(1, 8, [T(0, 4, d['dn']), C(0, 16, a)]) for a in alts]
        if op == 'modify':
            alts = [[]]
            for kind, n, vs in d['mods']:
                num = ['Add', 'Delete', 'Replace', 'Increment'].index(kind)
                alts = [acc + [C(0, 16, [T(0, 10, [bv(num, 8)]), C(0, 16, [T(0, 4, n), s_])])] for acc in alts for s_ in sets(vs)]
            return [C(1, 6, [T(0, 4, d['dn']), C(0, 16, a)]) for a in alts]
        if op.startswith('extended'): return [C(1, 23, [T(2, 0, d['name'])] + ([T(2, 1, d['val'])] if d['val'] is not None else []))]
        if op == 'abandon': return [T(1, 16, TagVariants.ref_int_octets(c, z3.SignExt(32, d['msgid'])))]
        if op == 'unbind': return [T(1, 2, [])]
        if op == 'search':
            o = d['opts']
            io = lambda v: TagVariants.ref_int_octets(c, z3.SignExt(32, v))
            deref_, sl, tl = (o['deref'], io(o['sizelimit']), io(o['timelimit'])) if o else (0, [bv(0, 8)], [bv(0, 8)])
            flt = C(2, 3, [T(0, 4, d['fa']), T(0, 4, d['fv'])])
            outs = []
            for b in ((0xFF, 0) if o else (0,)):
                cond = TRUE if not o else (o['typesonly'] if b else z3.Not(o['typesonly']))
                outs.append((cond, C(1, 3, [T(0, 4, d['base']), T(0, 10, [bv(d['scope'], 8)]), T(0, 10, [bv(deref_, 8)]), T(0, 2, sl), T(0, 2, tl), T(0, 1, [bv(b, 8)]), flt,
                                            C(0, 16, [T(0, 4, a) for a in d['attrs']])])))
            return outs

    def oracle(self, d, out):
        if out[0] == 'panic': return [('building a request never panics', FALSE)]
        o = out[1]; op = d['op']; c = self.c
        if op in ('add_empty', 'modify_add_empty'):
            r = o.get('result')
            ok = (not o['stopped']) and r.variant == 'Ready' and r.fields[0].variant == 'Err'
            return [('an Add with an empty value set is refused before anything is sent', z3.BoolVal(ok))]
        if not o['stopped']:
            return [('the operation reaches the wire', FALSE)]
        obs = []
        want_op = {'abandon': 'Abandon', 'unbind': 'Unbind', 'search': 'Search'}.get(op, 'Single')
        obs.append(('operation kind handed to the driver', z3.BoolVal(o['ldapop'].variant == want_op)))
        if op == 'abandon' and o['ldapop'].variant == 'Abandon':
            obs.append(('Abandon names the given ID', o['ldapop'].fields[0] == d['msgid']))
        refs = self.ref_ops(d)
        alts = []
        for r in refs:
            cond, tree = (r if isinstance(r, tuple) else (TRUE, r))
            for c2, bs in ref_message(c, d['mid'], tree, None):
                alts.append((z3.And(cond, c2), bs))
        obs.append((f'{op}: the bytes are the RFC 4511 PDU for the arguments', match_any(o['wire'], alts)))
        if op == 'search':
            obs.append(('search options are consumed by this search', z3.BoolVal(deref(o['orig']).fields['search_opts'].variant == 'None' and o['handle'].fields['search_opts'].variant == 'None')))
        return obs

    # native replay: the real async API against an in-process scripted peer that records the request bytes
    def case(self, cd):
        j = {'cmd': 'async:request', 'op': cd['op'], 'first_id': conc(cd['mid'])}
        for k, v in cd.items():
            if k in ('op', 'mid', 'fa', 'fv'): continue
            if k == 'attrs' and cd['op'].startswith('add'): j[k] = [[ints(n), [ints(x) for x in vs]] for n, vs in v]
            elif k == 'attrs': j[k] = [ints(a) for a in v]
            elif k == 'mods': j[k] = [[kind, ints(n), [ints(x) for x in vs]] for kind, n, vs in v]
            elif k == 'opts': j[k] = None if v is None else {'deref': v['deref'], 'typesonly': bool(z3.is_true(v['typesonly'])), 'timelimit': self.s32(v['timelimit']), 'sizelimit': self.s32(v['sizelimit'])}
            elif k == 'msgid': j[k] = self.s32(v)
            elif k == 'delete_old': j[k] = bool(z3.is_true(v))
            elif isinstance(v, list): j[k] = ints(v)
            else: j[k] = v
        return j

    @staticmethod
    def s32(v):
        x = conc(v); return x - (1 << 32) if x >> 31 else x

    def native_outcome(self, cd, j):
        if j['outcome'] == 'panic': return native_panic(j)
        v = j['value']
        if v.get('r') != 'queued':
            return ('ret', {'stopped': False, 'result': EnumV('Poll', 'Ready', [Err(Opaque('LdapError'))]) if v.get('r') == 'refused' else EnumV('Poll', 'Pending')})
        lop = EnumV('LdapOp', v['ldapop'], [z3.BitVecVal(v['abandon_id'], 32)] if v['ldapop'] == 'Abandon' else [])
        none = StructV('Ldap', [('search_opts', NONE() if v.get('opts_consumed', True) else Some(UNIT))])
        return ('ret', {'stopped': True, 'ldapop': lop, 'wire': bvs(v['wire']), 'handle': none, 'orig': none})

    def summary(self, out, model=None):
        if out[0] == 'panic': return {'panic': out[1].msg}
        o = out[1]
        if not o['stopped']: return {'sent': False}
        e = (lambda t: ev(model, t)) if model is not None else conc
        return {'ldapop': o['ldapop'].variant, 'wire': [e(b) for b in o['wire']]}

    def in_summary(self, d, model=None):
        e = (lambda t: ev(model, t)) if model is not None else (lambda t: z3.is_true(t) if z3.is_bool(t) else conc(t))
        def cv(v):
            if isinstance(v, (list, tuple)): return [cv(x) for x in v]
            if isinstance(v, dict): return {k: cv(x) for k, x in v.items()}
            if z3.is_expr(v): return e(v)
            return v
        return {k: cv(v) for k, v in d.items()}

    def regions(self, d, out):
        return [d['op']]

    def key(self, obname, out):
        return Lane.key(self, obname, out)


class Modifiers(Lane):
    """Ldap::op_call up to the wait for the reply: the tuple queued for the driver carries the freshly
    allocated ID and exactly the controls set on the handle; afterwards controls and timeout are
    cleared, so they cannot leak into a later operation"""
    name = 'C02.modifiers'

    def __init__(self, ctx, nctrl):
        Lane.__init__(self, ctx, nctrl); self.nctrl = nctrl

    def inputs(self):
        c = self.c
        n = c.choose(self.nctrl + 2, 'nctrl')
        return {'ctrls': None if n == 0 else raw_controls(c, n - 1), 'timeout': (z3.BitVec('tmo', 64) if c.choose(2, 'hastmo') else None), 'last': z3.BitVec('last', 32)}

    def execute(self, d):
        c = self.c
        c.assume(z3.And(d['last'] >= 0, d['last'] < (1 << 31) - 1))
        tmo = StructV('Duration', [('secs', d['timeout']), ('nanos', z3.BitVecVal(0, 32))]) if d['timeout'] is not None else None
        ld, chans = mk_ldap(c, controls=(controls_val(d['ctrls']) if d['ctrls'] is not None else None), timeout=tmo, last=d['last'])
        req = EnumV('Tag', 'StructureTag', [T(1, 10, S('dc=x'))])
        coro = c.run_fn('Ldap::op_call', [ld, EnumV('LdapOp', 'Single'), req])
        waited = []
        c.env = {'timeout': lambda ctx, f: (waited.append(('timeout', f)), PENDING)[1], 'recv_oneshot': lambda ctx, f: (waited.append(('rx', f)), PENDING)[1]}
        try:
            r = poll_coro(c, coro)
        finally:
            c.env = {}
        sent = chans['req'][0].sent
        return {'poll': r, 'sent': sent, 'ld': ld, 'waited': waited}

    def oracle(self, d, out):
        if out[0] == 'panic': return [('no panic', FALSE)]
        o = out[1]; ld = o['ld']
        obs = [('the operation is queued exactly once and then waits for its reply', z3.BoolVal(len(o['sent']) == 1 and o['poll'].variant == 'Pending'))]
        if len(o['sent']) != 1: return obs
        mid, lop, tag, ctrls, tx = o['sent'][0]
        obs.append(('queued ID is the freshly allocated one', z3.And(mid == ld.fields['last_id'], mid == ld.fields['msgmap'][0][0][0])))
        want = Some(controls_val(d['ctrls'])) if d['ctrls'] is not None else NONE()
        obs.append(('exactly the controls set on the handle travel with the request', eq_term(ctrls, want)))
        obs.append(('controls are cleared for the next operation', z3.BoolVal(ld.fields['controls'].variant == 'None')))
        obs.append(('timeout is cleared for the next operation', z3.BoolVal(ld.fields['timeout'].variant == 'None')))
        kinds = [w[0] for w in o['waited']]
        obs.append(('the reply wait is bounded by the timeout exactly when one was set', z3.BoolVal(kinds == (['timeout'] if d['timeout'] is not None else ['rx']))))
        if d['timeout'] is not None and kinds == ['timeout']:
            obs.append(('the timer gets the requested duration', deref(o['waited'][0][1].dur).fields['secs'] == d['timeout']))
        return obs

    def case(self, cd):
        return {'cmd': 'async:modifiers', 'ctrls': None if cd['ctrls'] is None else [{'oid': ints(x['oid']), 'crit': bool(z3.is_true(x['crit'])), 'val': None if x['val'] is None else ints(x['val'])} for x in cd['ctrls']],
                'timeout': None if cd['timeout'] is None else conc(cd['timeout']), 'last': conc(cd['last'])}

    def native_outcome(self, cd, j):
        if j['outcome'] == 'panic': return native_panic(j)
        v = j['value']
        ctr = NONE()
        if v['controls'] is not None:
            ctr = Some(VecV([StructV('RawControl', [('ctype', strv(bvs(x['oid']))), ('crit', z3.BoolVal(x['crit'])), ('val', Some(VecV(bvs(x['val']))) if x['val'] is not None else NONE())]) for x in v['controls']]))
        mid = z3.BitVecVal(v['id'] or 0, 32)
        ld = StructV('Ldap', [('msgmap', Tup([Tup([Tup([z3.BitVecVal(v['last_id'], 32), None])])])), ('last_id', z3.BitVecVal(v['last_id'], 32)),
                              ('controls', Some(UNIT) if v['controls_left'] else NONE()), ('timeout', Some(UNIT) if v['timeout_left'] else NONE())])
        sent = [Tup([mid, EnumV('LdapOp', 'Single'), None, ctr, None])] if v['queued'] else []
        waited = [('timeout', EnvFut('timeout', dur=StructV('Duration', [('secs', cd['timeout']), ('nanos', 0)])))] if cd['timeout'] is not None else [('rx', None)]
        return ('ret', {'poll': EnumV('Poll', 'Pending'), 'sent': sent, 'ld': ld, 'waited': waited})

    def summary(self, out, model=None):
        if out[0] == 'panic': return {'panic': out[1].msg}
        return {'queued': len(out[1]['sent']), 'poll': out[1]['poll'].variant, 'waited': [w[0] for w in out[1]['waited']]}

    def in_summary(self, d, model=None):
        return {'controls': None if d['ctrls'] is None else len(d['ctrls']), 'timeout': d['timeout'] is not None}

    def regions(self, d, out):
        return [('ctrl' if d['ctrls'] is not None else 'noctrl') + ('+tmo' if d['timeout'] is not None else '')]


class CloneResets(Lane):
    """Ldap::clone(): a cloned handle starts without the pending one-shot modifiers of the original
    (otherwise modifiers set on one handle would affect an operation invoked on another)"""
    name = 'C02.clone_resets_modifiers'

    def inputs(self):
        c = self.c
        return {'ctrls': raw_controls(c, 1) if c.choose(2, 'hasc') else None, 'timeout': z3.BitVec('tmo', 64) if c.choose(2, 'hast') else None,
                'opts': c.choose(2, 'haso'), 'last_id': z3.BitVec('lastid', 32)}

    def execute(self, d):
        c = self.c
        tmo = StructV('Duration', [('secs', d['timeout']), ('nanos', z3.BitVecVal(0, 32))]) if d['timeout'] is not None else None
        so = StructV('SearchOptions', [('deref', EnumV('DerefAliases', 'Always')), ('typesonly', TRUE), ('timelimit', z3.BitVecVal(5, 32)), ('sizelimit', z3.BitVecVal(7, 32))]) if d['opts'] else None
        ld, _ = mk_ldap(c, controls=(controls_val(d['ctrls']) if d['ctrls'] is not None else None), timeout=tmo, search_opts=so)
        ld.fields['last_id'] = d['last_id']
        cl = c.run_fn('<Ldap as Clone>::clone', [ld])
        return {'orig': ld, 'clone': cl}

    def oracle(self, d, out):
        if out[0] == 'panic': return [('no panic', FALSE)]
        cl = out[1]['clone']; ld = out[1]['orig']
        return [('a clone carries no pending controls', z3.BoolVal(cl.fields['controls'].variant == 'None')),
                ('a clone carries no pending timeout', z3.BoolVal(cl.fields['timeout'].variant == 'None')),
                ('a clone carries no pending search options', z3.BoolVal(cl.fields['search_opts'].variant == 'None')),
                ('the original keeps its own modifiers', z3.BoolVal((ld.fields['controls'].variant == 'Some') == (d['ctrls'] is not None) and (ld.fields['timeout'].variant == 'Some') == (d['timeout'] is not None))),
                ('both handles share one ID table', z3.BoolVal(deref(cl.fields['msgmap'])[0] is deref(ld.fields['msgmap'])[0] or deref(cl.fields['msgmap']) is deref(ld.fields['msgmap'])))]

    def case(self, cd):
        return {'cmd': 'async:clone', 'ctrls': None if cd['ctrls'] is None else [{'oid': ints(x['oid']), 'crit': bool(z3.is_true(x['crit'])), 'val': None if x['val'] is None else ints(x['val'])} for x in cd['ctrls']],
                'timeout': None if cd['timeout'] is None else conc(cd['timeout']), 'opts': bool(cd['opts'])}

    def native_outcome(self, cd, j):
        if j['outcome'] == 'panic': return native_panic(j)
        v = j['value']
        mm = Tup([Tup([0])])
        f = lambda b: Some(UNIT) if b else NONE()
        cl = StructV('Ldap', [('msgmap', mm), ('controls', f(v['clone_controls'])), ('timeout', f(v['clone_timeout'])), ('search_opts', f(v['clone_opts']))])
        ld = StructV('Ldap', [('msgmap', mm if v['shared'] else Tup([Tup([1])])), ('controls', f(v['orig_controls'])), ('timeout', f(v['orig_timeout'])), ('search_opts', f(v['orig_opts']))])
        return ('ret', {'orig': ld, 'clone': cl})

    def summary(self, out, model=None):
        if out[0] == 'panic': return {'panic': out[1].msg}
        cl = out[1]['clone']
        return {k: cl.fields[k].variant for k in ('controls', 'timeout', 'search_opts')}

    def in_summary(self, d, model=None):
        return {'controls': d['ctrls'] is not None, 'timeout': d['timeout'] is not None, 'search_opts': bool(d['opts'])}

    def regions(self, d, out):
        return ['all-set'] if d['ctrls'] is not None and d['timeout'] is not None and d['opts'] else []



class SearchModifiers(Lane):
    """Ldap::streaming_search_with (no adapters) from its coroutine MIR through SearchStream::start / start_inner /
    op_call, for every combination of pending controls / timeout / search options on the handle: the Search request
    carries exactly the controls that were set and the options in its fields, the stream inherits the timeout, and the
    handle is left with none of the three - they cannot leak into the next operation"""
    name = 'C02.search_modifiers'

    def inputs(self):
        c = self.c
        return {'ctrls': raw_controls(c, 1) if c.choose(2, 'hasctrl') else None, 'timeout': (z3.BitVec('tmo', 64) if c.choose(2, 'hastmo') else None),
                'opts': ({'deref': c.choose(4, 'deref'), 'typesonly': z3.Bool('typesonly'), 'timelimit': z3.BitVec('tl', 8), 'sizelimit': z3.BitVec('sl', 8)} if c.choose(2, 'hasopts') else None)}

    def execute(self, d):
        c = self.c
        tmo = StructV('Duration', [('secs', d['timeout']), ('nanos', z3.BitVecVal(0, 32))]) if d['timeout'] is not None else None
        o = d['opts']
        so = StructV('SearchOptions', [('deref', EnumV('DerefAliases', ['Never', 'Searching', 'Finding', 'Always'][o['deref']])), ('typesonly', o['typesonly']), ('timelimit', z3.ZeroExt(24, o['timelimit'])), ('sizelimit', z3.ZeroExt(24, o['sizelimit']))]) if o else None
        ld, chans = mk_ldap(c, controls=(controls_val(d['ctrls']) if d['ctrls'] is not None else None), timeout=tmo, search_opts=so, last=z3.BitVecVal(7, 32))
        ack = Ok(Tup([EnumV('Tag', 'Null', [StructV('Null', [('id', bv(5, 64)), ('class', ber.cls(0)), ('inner', UNIT)])]), VecV([])]))

        def send_env(ctx, t, val):
            t.sent.append(val); return Ok(UNIT)
        waited = []
        c.env = {'send': send_env, 'recv_oneshot': lambda ctx, f: (waited.append('rx'), ack)[1], 'timeout': lambda ctx, f: (waited.append('timeout'), Ok(ack))[1]}
        try:
            coro = c.run_fn('Ldap::streaming_search_with', [ld, VecV([]), strv(S('dc=x')), EnumV('Scope', 'Subtree'), strv(S('(a=b)')), VecV([strv(S('cn'))])])
            r = poll_coro(c, coro)
        finally:
            c.env = {}
        return {'poll': r, 'sent': chans['req'][0].sent, 'ld': ld}

    def oracle(self, d, out):
        if out[0] == 'panic': return [('no panic', FALSE)]
        o = out[1]; ld = o['ld']; r = o['poll']
        ok = r.variant == 'Ready' and r.fields[0].variant == 'Ok'
        obs = [('the search starts: exactly one request is queued', z3.BoolVal(ok and len(o['sent']) == 1))]
        if not (ok and len(o['sent']) == 1): return obs
        mid, lop, tag, ctrls, tx = o['sent'][0]
        want = Some(controls_val(d['ctrls'])) if d['ctrls'] is not None else NONE()
        obs.append(('exactly the controls set on the handle travel with the search request', eq_term(ctrls, want)))
        for f in ('controls', 'timeout', 'search_opts'):
            obs.append((f'{f} set on the handle are consumed by the search: none left for the next operation', z3.BoolVal(ld.fields[f].variant == 'None')))
        st = deref(r.fields[0].fields[0])
        if d['timeout'] is not None:
            obs.append(('the stream inherits the timeout for its item waits', z3.BoolVal(st.fields['timeout'].variant == 'Some') if st.fields['timeout'].variant != 'Some' else deref(st.fields['timeout'].fields[0]).fields['secs'] == d['timeout']))
        else:
            obs.append(('no timeout: the stream waits untimed', z3.BoolVal(st.fields['timeout'].variant == 'None')))
        # options in the request: derefAliases, sizeLimit, timeLimit, typesOnly are children 2..5 of the SearchRequest
        req = deref(tag); inner = deref(req.fields[0]) if isinstance(req, EnumV) else req
        try:
            kids = inner.fields['inner'].items if isinstance(inner, StructV) and 'inner' in inner.fields else None
        except Exception:
            kids = None
        if kids is not None and len(kids) >= 6:
            g = lambda i: deref(deref(kids[i]).fields[0]).fields['inner']
            dflt = d['opts'] is None
            obs.append(('derefAliases / sizeLimit / timeLimit / typesOnly of the request are the options set (defaults otherwise)',
                        and_all([g(2) == (z3.BitVecVal(0, 64) if dflt else z3.BitVecVal(d['opts']['deref'], 64)), g(3) == (z3.BitVecVal(0, 64) if dflt else z3.ZeroExt(56, d['opts']['sizelimit'])),
                                 g(4) == (z3.BitVecVal(0, 64) if dflt else z3.ZeroExt(56, d['opts']['timelimit'])), (g(5) == (FALSE if dflt else d['opts']['typesonly']))])))
        return obs

    def replay_by_role(self, cd, obname, out, m):
        from .scenarios import script, step, BIND, BIND_OK, ENTRY, okres, stream_start
        # natively: set the modifiers, run a search to its end, then an unmodified slow operation on the same handle
        steps = [BIND]
        if cd['timeout'] is not None: steps.append({'do': 'with_timeout', 'ms': 120})
        if cd['ctrls'] is not None: steps.append({'do': 'with_controls', 'ctrls': [{'oid': '2.2', 'crit': True, 'val': [7]}]})
        if cd['opts'] is not None: steps.append({'do': 'with_search_options'})
        steps += [stream_start([]), {'do': 'next'}, {'do': 'next'}, {'do': 'finish'}, {'do': 'delete', 'dn': 'dc=after'}]
        case = script(steps, [BIND_OK, {'replies': [{'id': 'req', 'op': ENTRY}, {'id': 'req', 'op': okres(5)}]}, {'delay_ms': 400, 'replies': [{'id': 'req', 'op': okres(11, 9)}]}])
        nj = native([case])[0]; v = nj['value']
        dl = step(v, 'delete'); bad = None
        reqs = v.get('requests') or []
        last = ber.py_decode(reqs[-1])[0] if reqs else None
        if not (isinstance(dl, dict) and dl.get('ok', {}).get('rc') == 9): bad = f'the operation after the search returned {json.dumps(dl)[:80]} (a modifier of the search is still armed on the handle)'
        elif last is not None and len(last['c']) > 2: bad = 'the operation after the search still carries the controls set for the search'
        return bool(bad), 'search-modifiers-leak', f'modifiers set for a search: {bad}' if bad else None, case, {'native': v['steps']}

    def case(self, cd): return {}

    def summary(self, out, model=None):
        if out[0] == 'panic': return {'panic': out[1].msg}
        o = out[1]
        return {'queued': len(o['sent']), 'left': [f for f in ('controls', 'timeout', 'search_opts') if o['ld'].fields[f].variant != 'None']}

    def in_summary(self, d, model=None):
        return {'controls': d['ctrls'] is not None, 'timeout': d['timeout'] is not None, 'search options': d['opts'] is not None}

    def regions(self, d, out):
        return ['+'.join(k for k in ('ctrls', 'timeout', 'opts') if d[k] is not None) or 'none']

def body(chk):
    quick = chk.tier == 'quick'
    run_lane(chk, Envelope, (2 if quick else 3,), bounds={'message ID': 'all of 1..2^31-1', 'controls': 'None | Some(0..%d) with symbolic OID/criticality/value' % (2 if quick else 3), 'protocolOp': 'any tag <= 30, symbolic content'},
             need_regions=('no-controls', 'controls-0', 'controls-1', 'boundary-length'))
    run_lane(chk, CloneResets, (), bounds={'pending modifiers on the original': 'every combination of controls / timeout / search options'}, selftest=False, need_regions=('all-set',))
    sl = 2 if quick else tier_param('C02', 3)
    run_lane(chk, Builders, (sl,), bounds={'strings (DNs, passwords, values)': f'{sl} symbolic bytes (UTF-8 where the API takes &str)', 'attributes / modifications': '1..2 with 0..2 values, every Mod variant', 'search': 'scope x deref x symbolic limits/typesOnly, 0..2 attributes, (a=v) filter template',
                                           'message ID': 'all of 1..2^31-1'}, selftest=False, need_regions=tuple(Builders.OPS))
    run_lane(chk, Modifiers, (1 if quick else 2,), bounds={'controls on the handle': 'None | Some(0..%d)' % (1 if quick else 2), 'timeout': 'absent | any u64 seconds', 'counter': 'any'}, selftest=False,
             need_regions=('ctrl', 'noctrl', 'ctrl+tmo', 'noctrl+tmo'))
    run_lane(chk, SearchModifiers, (), bounds={'pending modifiers': 'every combination of controls (1, symbolic) / timeout (any u64 s) / search options (symbolic)', 'search': 'streaming_search_with without adapters, fixed base/filter/attributes'},
             selftest=False, need_regions=('none', 'ctrls+timeout+opts'))
    chk.assumptions += [
        'lane B2: the async builders are executed from their coroutine MIR up to the call of Ldap::op_call; op_call itself up to the reply wait, with tokio channel/timer calls as environment stubs (send records, timeout/recv answer Pending)',
        'filters inside SearchRequest come from one template; the filter grammar is C08. SET OF values are compared as multisets (hash iteration order is a nondeterministic permutation)',
        'the 25 sync wrappers are C14; the bytes of requests larger than the bounds are outside the claim',
    ]


if __name__ == '__main__':
    run_check('C02', body)
