"""C05 In-flight operations never share a message ID; IDs stay within 1..2^31-1.
One inductive step of the allocator from an arbitrary pre-state (counter anywhere in 0..=i32::MAX,
in-use set an arbitrary z3 array)."""
import re
import z3
from .framework import *
from . import ber
from .lane import Lane, run_lane
from mirsym.values import *
from mirsym.engine import TRUE, FALSE
from mirsym.mir import compile_fn

MAX = (1 << 31) - 1


def succ(x):
    return z3.If(x == MAX, z3.BitVecVal(1, 32), x + 1)


class AllocStep(Lane):
    name = 'C05.allocator_step'

    def __init__(self, ctx, K):
        Lane.__init__(self, ctx, K); self.K = K

    def inputs(self):
        c = self.c
        last = z3.BitVec('last', 32)
        c.assume(z3.And(last >= 0, last <= MAX))
        arr = z3.Array('inuse', z3.BitVecSort(32), z3.BoolSort())
        return {'last': last, 'arr': arr}

    def mk_ldap(self, inp, zs):
        mm = Tup([Tup([Tup([inp['last'], zs])])])         # Arc(Mutex((last, set)))
        return StructV('Ldap', [('msgmap', mm), ('tx', Opaque('tx')), ('id_scrub_tx', Opaque('tx')), ('misc_tx', Opaque('tx')),
                                ('last_id', z3.BitVecVal(0, 32)), ('has_tls', FALSE), ('timeout', NONE()), ('controls', NONE()), ('search_opts', NONE())])

    def execute(self, inp):
        zs = ZSet(inp['arr'], self.K)
        ld = self.mk_ldap(inp, zs)
        r = self.c.run_fn('Ldap::next_msgid', [ld])
        inner = ld.fields['msgmap'][0][0]
        return {'id': r, 'last': inner[0], 'arr': inner[1].arr, 'hits': getattr(zs, 'calls', 1) - 1}

    def oracle(self, inp, out):
        if out[0] == 'panic':
            return [('no panic (no overflow at the wrap-around point)', FALSE)]
        o = out[1]; rid = o['id']; old = inp['arr']; last = inp['last']
        obs = [('ID within 1..2^31-1', z3.And(rid >= 1, rid <= MAX)),
               ('ID differs from every ID still in use', z3.Not(z3.Select(old, rid))),
               ('counter moves to the issued ID', o['last'] == rid)]
        x = z3.BitVec('anyid', 32)
        obs.append(('in-use set afterwards = before + the issued ID (and nothing else changes)', z3.Select(o['arr'], x) == z3.Or(z3.Select(old, x), x == rid)))
        # first free successor in cyclic order MAX -> 1 (under the stated bound on consecutive occupied IDs)
        alts = []; cand = last; pre = []
        for j in range(1, self.K + 2):
            cand = succ(cand)
            alts.append(z3.And(*pre, z3.Not(z3.Select(old, cand)), rid == cand))
            pre = pre + [z3.Select(old, cand)]
        obs.append(('allocation continues from the low end and takes the first free ID', z3.Or(*alts)))
        return obs

    def case(self, cinp):
        return None

    def on_path(self, ctx, outcome, pc):
        # custom concretisation: the in-use set is an array; the replay case lists the IDs the model marks in use near `last`
        self._pc = pc
        return Lane.on_path(self, ctx, outcome, pc)

    def summary(self, out, model=None):
        if out[0] == 'panic': return {'panic': out[1].msg}
        e = (lambda t: ev(model, t)) if model is not None else conc
        v = e(out[1]['id']); l = e(out[1]['last'])
        sg = lambda v: v - (1 << 32) if v >> 31 else v
        return {'id': sg(v), 'last': sg(l)}

    def in_summary(self, inp, model=None):
        if model is not None:
            return {'last': ev(model, inp['last'])}
        return {'last': conc(inp['last']), 'inuse': inp.get('inuse')}

    def regions(self, inp, out):
        r = []
        if out[0] == 'ret':
            r.append(f'skipped-{out[1]["hits"] if isinstance(out[1].get("hits"), int) else 0}')
        return r


class AllocStepR(AllocStep):
    """replay plumbing: concretise the array model into an explicit in-use list around `last`"""

    def on_path(self, ctx, outcome, pc):
        return Lane.on_path(self, ctx, outcome, pc)

    def case(self, cinp):
        return {'cmd': 'msgid', 'last': self.s32(conc(cinp['last'])), 'inuse': cinp['inuse']}

    @staticmethod
    def s32(v):
        return v - (1 << 32) if v >> 31 else v

    def native_outcome(self, cinp, j):
        if j['outcome'] == 'panic':
            return native_panic(j)
        v = j['value']
        arr = z3.K(z3.BitVecSort(32), FALSE)
        for x in v['inuse']:
            arr = z3.Store(arr, z3.BitVecVal(x, 32), TRUE)
        return ('ret', {'id': z3.BitVecVal(v['id'], 32), 'last': z3.BitVecVal(v['last'], 32), 'arr': arr, 'hits': 0})



class RequestIds(Lane):
    """the ID a request actually leaves the client with: Ldap::op_call runs from its coroutine MIR for every kind of
    operation (single-result, search, Abandon, Unbind) from an arbitrary counter / in-use pre-state; the ID put on
    the request channel must lie in 1..2^31-1 and must not belong to an operation still outstanding"""
    name = 'C05.request_ids'
    KINDS = ['Single', 'Search', 'Abandon', 'Unbind']

    def __init__(self, ctx, K):
        Lane.__init__(self, ctx, K); self.K = K

    def inputs(self):
        c = self.c
        d = {'kind': self.KINDS[c.choose(4, 'kind')], 'last': z3.BitVec('last', 32), 'arr': z3.Array('inuse', z3.BitVecSort(32), z3.BoolSort())}
        c.assume(z3.And(d['last'] >= 0, d['last'] <= MAX))
        return d

    def execute(self, d):
        from .streams import mk_handle, poll
        from mirsym.models_async import channel
        c = self.c
        ld, tx, stx = mk_handle(c)
        zs = ZSet(d['arr'], self.K)
        ld.fields['msgmap'][0][0][0] = d['last']; ld.fields['msgmap'][0][0][1] = zs
        itx, _ = channel('items')
        op = {'Single': EnumV('LdapOp', 'Single'), 'Search': EnumV('LdapOp', 'Search', [itx]), 'Abandon': EnumV('LdapOp', 'Abandon', [z3.BitVec('abid', 32)]), 'Unbind': EnumV('LdapOp', 'Unbind')}[d['kind']]
        ack = Ok(Tup([EnumV('Tag', 'Null', [StructV('Null', [('id', bv(5, 64)), ('class', ber.cls(0)), ('inner', UNIT)])]), VecV([])]))

        def send_env(ctx, t, val):
            t.sent.append(val); return Ok(UNIT)
        c.env = {'send': send_env, 'recv_oneshot': lambda ctx, f: ack, 'timeout': lambda ctx, f: Ok(ack)}
        try:
            r = poll(c, c.run_fn('Ldap::op_call', [ld, op, EnumV('Tag', 'StructureTag', [ber.prim(1, 10, ber.bstr('dc=x'))])]))
        finally:
            c.env = {}
        return {'poll': r, 'queued': list(tx.sent), 'zs': zs, 'ld': ld}

    def oracle(self, d, out):
        if out[0] == 'panic': return [('no panic (no overflow at the wrap-around point)', FALSE)]
        o = out[1]
        if len(o['queued']) != 1: return [('exactly one request is queued', FALSE)]
        rid = o['queued'][0][0]
        obs = [('the request leaves with an ID in 1..2^31-1', z3.And(rid >= 1, rid <= MAX)),
               ('the ID differs from every ID still in use (whatever the operation: also Abandon and Unbind)', z3.Not(z3.Select(d['arr'], rid)))]
        if d['kind'] in ('Single', 'Search'):
            obs.append(('the ID of an operation that awaits a response is reserved from now on', z3.Select(o['zs'].arr, rid)))
        obs.append(('the handle reports that ID as its last one', o['ld'].fields['last_id'] == rid))
        return obs

    def case(self, cinp):
        op = {'Single': {'op': 'delete', 'dn': 'dc=x'}, 'Search': {'op': 'search', 'base': 'dc=x', 'scope': 2, 'filter': '(a=b)', 'attrs': []}, 'Abandon': {'op': 'abandon', 'msgid': 1}, 'Unbind': {'op': 'unbind'}}[cinp['kind']]
        return dict({'cmd': 'async:request', 'last': AllocStepR.s32(conc(cinp['last'])), 'inuse': cinp['inuse']}, **op)

    def native_outcome(self, cinp, j):
        if j['outcome'] == 'panic': return native_panic(j)
        v = j['value']
        if v.get('r') != 'queued': return ('ret', {'poll': None, 'queued': [], 'zs': None, 'ld': None})
        arr = z3.K(z3.BitVecSort(32), FALSE)
        for x in v['reserved']: arr = z3.Store(arr, z3.BitVecVal(x, 32), TRUE)
        zs = ZSet(arr, 1)
        ld = StructV('Ldap', [('last_id', z3.BitVecVal(v['id'], 32))])
        return ('ret', {'poll': None, 'queued': [Tup([z3.BitVecVal(v['id'], 32)])], 'zs': zs, 'ld': ld})

    def summary(self, out, model=None):
        if out[0] == 'panic': return {'panic': out[1].msg}
        o = out[1]
        if not o['queued']: return {'queued': 0}
        rid = o['queued'][0][0]
        return {'queued': 1, 'id': ev(model, rid) if model is not None else conc(rid)}

    def in_summary(self, d, model=None):
        if 'inuse' in d: return {'kind': d['kind'], 'last': AllocStepR.s32(conc(d['last'])), 'inuse': d['inuse']}
        return {'kind': d['kind'], 'last': ev(model, d['last']) if model is not None else None}

    def regions(self, d, out):
        return [d['kind']]

def conc_inputs(model, inp, K):
    """model -> concrete pre-state: the IDs among the K+2 cyclic successors of last that the model marks in use"""
    last = ev(model, inp['last'])
    inuse = []
    cand = last
    for _ in range(K + 2):
        cand = 1 if cand == MAX else cand + 1
        if ev(model, z3.Select(inp['arr'], z3.BitVecVal(cand, 32))):
            inuse.append(cand)
    arr = z3.K(z3.BitVecSort(32), FALSE)
    for x in inuse:
        arr = z3.Store(arr, z3.BitVecVal(x, 32), TRUE)
    return {'last': z3.BitVecVal(last, 32), 'arr': arr, 'inuse': inuse}


# the generic driver concretises with conc_val(model, inp); arrays need the special form above
import harness.lane as _lane
_orig_conc_val = _lane.conc_val


def _conc_val(model, v):
    if isinstance(v, dict) and 'arr' in v and 'last' in v and z3.is_array(v['arr']):
        r = conc_inputs(model, v, 20)
        if 'kind' in v: r['kind'] = v['kind']
        return r
    return _orig_conc_val(model, v)


_lane.conc_val = _conc_val


def lock_discipline(chk):
    """syntactic part of the atomicity argument: in next_msgid the mutex guard is acquired before the
    first access to the table and is not released before HashSet::insert"""
    prog = chk.program()
    fn = prog.alias.get('Ldap::next_msgid')
    code = compile_fn(fn)
    lock_bb = ins_bb = None; guard = None
    for bb, sts in code.items():
        for st in sts:
            if st[0] == 'call' and 'Mutex' in st[2] and st[2].endswith('::lock'):
                lock_bb = bb
            if st[0] == 'call' and 'HashSet' in st[2] and '::insert' in st[2]:
                ins_bb = bb
    ok = lock_bb is not None and ins_bb is not None
    # blocks reachable from bb0 without passing through the insert block must not drop a MutexGuard
    seen = set(); todo = ['bb0']; early_drop = []
    while todo:
        b = todo.pop()
        if b in seen or b == ins_bb or b not in code or b in fn.cleanup: continue
        seen.add(b)
        raw = fn.raw[b]
        for st, rs in zip(code[b], raw):
            if st[0] == 'drop' and 'MutexGuard' in fn.locals.get(st[1][0], ''):
                early_drop.append(b)
            if st[0] in ('goto',): todo.append(st[1])
            elif st[0] == 'switch': todo.extend(t for _, t in st[2])
            elif st[0] == 'call' and st[4]: todo.append(st[4])
            elif st[0] == 'assert': todo.append(st[4])
            elif st[0] == 'drop': todo.append(st[2])
    ok = ok and not early_drop and lock_bb in seen
    chk.cov['vacuity']['lock discipline (syntactic)'] = 'guard taken before first access, held until insert' if ok else f'NOT established: lock={lock_bb} insert={ins_bb} early drops={early_drop}'
    if not ok:
        chk.inconclusive.append('C05: lock discipline of next_msgid could not be established syntactically (atomicity argument does not apply)')


def body(chk):
    quick = chk.tier == 'quick'
    K = 4 if quick else 16
    run_lane(chk, AllocStepR, (K,), bounds={'counter': 'all of 0..=2^31-1 (symbolic)', 'in-use set': 'arbitrary (z3 array)', 'consecutive occupied successors': f'< {K + 1} (beyond: assumed free, recorded as cut)'},
             selftest=False, need_regions=('skipped-0', 'skipped-1', f'skipped-{K}'))
    run_lane(chk, RequestIds, (2 if quick else 4,), bounds={'operation kinds': RequestIds.KINDS, 'counter': 'all of 0..=2^31-1', 'in-use set': 'arbitrary (z3 array)', 'consecutive occupied successors': f'<= {2 if quick else 4}'},
             selftest=False, need_regions=tuple(RequestIds.KINDS))
    lock_discipline(chk)
    from . import driver
    run_lane(chk, driver.DriverStep, (('C05', 2, 1) if quick else ('C05', 4, 3)), bounds={'driver step': 'release sites: result delivery (receiver alive or gone), scrub, Abandon, search Done / dead item receiver; every other entry of the in-use set unchanged'}, selftest=False,
             need_regions=('scrub', 'resp', 'op-abandon', 'op-search'))
    # concrete differential vectors
    cases = [{'cmd': 'msgid', 'last': l, 'inuse': u} for l, u in [(0, []), (5, [6, 7]), (MAX, [1, 2]), (MAX - 1, [MAX]), (MAX - 2, [MAX - 1, MAX, 1]), (7, [9])]]
    nat = native(cases)
    prog = chk.program(); ctx = build.new_ctx(prog); lane = AllocStepR(ctx, 20)
    for cse, nj in zip(cases, nat):
        arr = z3.K(z3.BitVecSort(32), FALSE)
        for x in cse['inuse']: arr = z3.Store(arr, z3.BitVecVal(x, 32), TRUE)
        res = []
        ctx.todo = None
        ctx.explore(lambda: lane.execute({'last': z3.BitVecVal(cse['last'], 32), 'arr': arr}), lambda o, pc: res.append(o))
        got = conc(res[0][1]['id']) if res and res[0][0] == 'ret' else None
        if got is None and nj['outcome'] == 'panic':
            chk.cov['traces_validated_against_impl'] += 1
        elif nj['outcome'] != 'ok' or got != nj['value']['id']:
            chk.inconclusive.append(f'self-test C05: interpreter {got} vs native {nj} on {cse}')
        else:
            chk.cov['traces_validated_against_impl'] += 1
    chk.assumptions += [
        'one inductive step from an arbitrary pre-state; concurrent callers are a sequence of such steps because the whole body runs under the msgmap mutex (guard liveness checked syntactically on the MIR, an assumption not a solver fact)',
        f'fewer than {K + 1} consecutive cyclic successors of the counter are occupied (cut recorded when hit); the "no free slot" assertion needs all 2^31-1 IDs in use and is outside',
        'release sites: one iteration of the driver from an arbitrary pre-state shows each site removes exactly the ID it is about (lane B3, shared with C13)',
    ]


if __name__ == '__main__':
    run_check('C05', body)
