"""C09 Escaped text is inert: escaping then parsing returns the original value."""
import z3
from .framework import *
from .lane import Lane, run_lane
from . import ber
from .c08 import run_filter, is_hex, hexval, CTX
from mirsym.values import *
from mirsym.engine import TRUE, FALSE, clone_val
from mirsym.models import eq_term, and_all, or_all, utf8_valid


def cow_bytes(v):
    v = deref(v)
    inner = deref(v.fields[0]) if isinstance(v, EnumV) and v.ty == 'Cow' else v
    return list(inner.b if isinstance(inner, StrV) else inner.items)


def sym_utf8(c, n, name='s'):
    bs = [z3.BitVec(f'{name}{i}', 8) for i in range(n)]
    c.assume(utf8_valid(bs))
    return bs


class RefReject(Exception):
    pass


def ref_filter_unescape(c, bs):
    """reference reader of an RFC 4515 assertion value: -> bytes; rejects raw specials / bad escapes"""
    out = []; i = 0
    while i < len(bs):
        b = bs[i]
        if c.branch(z3.Or(b == 0, b == 0x28, b == 0x29, b == 0x2a)): raise RefReject('raw special')
        if c.branch(b == 0x5c):
            if i + 2 >= len(bs): raise RefReject('truncated escape')
            h, l = bs[i + 1], bs[i + 2]
            if not c.branch(z3.And(is_hex(h), is_hex(l))): raise RefReject('bad escape')
            out.append(z3.simplify((hexval(h) << 4) + hexval(l))); i += 3
        else:
            out.append(b); i += 1
    return out


def ref_dn_value(c, bs):
    """reference reader of one RFC 4514 attribute value in string form -> bytes; rejects anything
    that would end the value, start a new RDN/AVA, or is not allowed unescaped at its position"""
    out = []; i = 0; n = len(bs)
    while i < n:
        b = bs[i]
        if c.branch(b == 0x5c):
            if i + 1 >= n: raise RefReject('dangling backslash')
            e = bs[i + 1]
            if c.branch(is_hex(e)):
                if i + 2 >= n or not c.branch(is_hex(bs[i + 2])): raise RefReject('bad hex pair')
                out.append(z3.simplify((hexval(e) << 4) + hexval(bs[i + 2]))); i += 3
            elif c.branch(z3.Or(*[e == x for x in b'"+,;<>\\ #='])):
                out.append(e); i += 2
            else:
                raise RefReject('bad pair')
            continue
        if c.branch(z3.Or(*[b == x for x in b'"+,;<>'] + [b == 0])): raise RefReject('unescaped special')
        if i == 0 and c.branch(z3.Or(b == 0x20, b == 0x23)): raise RefReject('leading space or #')
        if i == n - 1 and c.branch(b == 0x20): raise RefReject('trailing space')
        out.append(b); i += 1
    return out


class EscapeLane(Lane):
    def case(self, cinp):
        return {'cmd': self.cmd, 'bytes': ints(cinp['v'])}

    def in_summary(self, inp, model=None):
        bs = [ev(model, b) if model is not None else conc(b) for b in inp['v']]
        return {'bytes': bs}

    def summary(self, out, model=None):
        if out[0] == 'panic': return {'panic': out[1].msg}
        e = (lambda t: ev(model, t)) if model is not None else conc
        o = out[1]
        return {'out': [e(b) for b in o['out']] if o['out'] is not None else None, 'borrowed': o.get('borrowed'), 'extra': o.get('extra')}

    def native_outcome(self, cinp, j):
        if j['outcome'] == 'panic': return native_panic(j)
        v = j['value']
        if v['r'] != 'ok': return ('ret', {'out': None})
        return ('ret', {'out': bvs(v['out']), 'borrowed': v['borrowed']})

    def concrete_vectors(self, rng):
        pool = ['', 'abc', 'a*b', '(x)', '\\', 'a\0b', ' lead', 'trail ', '#x', 'a,b+c', 'é(', '  ', 'x=y', '"q"', '<>', ';', 'ć*']
        return [{'v': bvs(s.encode())} for s in pool]


class LdapEscape(EscapeLane):
    name = 'C09.ldap_escape'
    cmd = 'escape'

    def __init__(self, ctx, n):
        Lane.__init__(self, ctx, n); self.n = n

    def inputs(self):
        return {'v': sym_utf8(self.c, self.n)}

    def execute(self, inp):
        r = self.c.run_fn('ldap_escape', [StrV(list(inp['v']))])
        return {'out': cow_bytes(r), 'borrowed': r.variant == 'Borrowed'}

    def oracle(self, inp, out):
        if out[0] == 'panic': return [('no panic', FALSE)]
        c = self.c; v = inp['v']; o = out[1]['out']
        needs = or_all([z3.Or(b == 0, b == 0x28, b == 0x29, b == 0x2a, b == 0x5c) for b in v])
        obs = []
        try:
            back = ref_filter_unescape(c, o)
            obs.append(('escaped text read back as an assertion value is byte-for-byte v', eq_term(SliceV(back), SliceV(list(v)))))
        except RefReject as e:
            obs.append((f'escaped text is inert ({e})', FALSE))
        obs.append(('strings that need no escaping are returned unchanged', z3.Implies(z3.Not(needs), eq_term(SliceV(o), SliceV(list(v))))))
        obs.append(('...and borrowed, not copied', z3.Implies(z3.Not(needs), z3.BoolVal(bool(out[1].get('borrowed'))))))
        return obs


class UnescapeRoundTrip(EscapeLane):
    name = 'C09.unescape_roundtrip'
    cmd = 'escape_unescape'

    def __init__(self, ctx, n):
        Lane.__init__(self, ctx, n); self.n = n

    def inputs(self):
        return {'v': sym_utf8(self.c, self.n)}

    def execute(self, inp):
        r = self.c.run_fn('ldap_escape', [StrV(list(inp['v']))])
        u = self.c.run_fn('ldap_unescape', [r])
        if u.variant != 'Ok':
            return {'out': None}
        return {'out': cow_bytes(u.fields[0])}

    def oracle(self, inp, out):
        if out[0] == 'panic': return [('no panic', FALSE)]
        if out[1]['out'] is None: return [('ldap_unescape accepts what ldap_escape produced', FALSE)]
        return [('ldap_unescape(ldap_escape(v)) == v', eq_term(SliceV(out[1]['out']), SliceV(list(inp['v']))))]


class FilterEmbedding(EscapeLane):
    """(a=<esc>) is an equalityMatch with value v; inside (a=x*<esc>*y) the substring structure is unchanged"""
    name = 'C09.filter_embedding'
    cmd = 'escape_in_filter'

    def __init__(self, ctx, n):
        Lane.__init__(self, ctx, n); self.n = n

    def inputs(self):
        return {'v': sym_utf8(self.c, self.n), 'ctx': self.c.choose(2, 'where')}

    def execute(self, inp):
        r = self.c.run_fn('ldap_escape', [StrV(list(inp['v']))])
        esc = cow_bytes(r)
        S = ber.bstr
        text = S('(a=') + esc + S(')') if inp['ctx'] == 0 else S('(a=x*') + esc + S('*y)')
        t = run_filter(self.c, text)
        return {'out': esc, 'tree': t, 'extra': inp['ctx']}

    def oracle(self, inp, out):
        if out[0] == 'panic': return [('no panic', FALSE)]
        t = out[1]['tree']; v = list(inp['v']); S = ber.bstr
        if inp['ctx'] == 1 and len(v) == 0:
            return []          # (a=x**y): an empty string between asterisks is not an embedded value (adjacent asterisks are rejected by C08)
        if t is None: return [('a filter with an escaped value embedded is accepted', FALSE)]
        if inp['ctx'] == 0:
            want = ber.cons(CTX, 3, [ber.prim(0, 4, S('a')), ber.prim(0, 4, v)])
        else:
            if len(v) == 0:
                return []          # (a=x**y) is two adjacent asterisks: not an embedding of a value
            want = ber.cons(CTX, 4, [ber.prim(0, 4, S('a')), ber.cons(0, 16, [ber.prim(CTX, 0, S('x')), ber.prim(CTX, 1, v), ber.prim(CTX, 2, S('y'))])])
        return [('filter structure unchanged and value byte-for-byte v', eq_term(t, want))]

    def case(self, cinp):
        return {'cmd': 'escape_in_filter', 'bytes': ints(cinp['v']), 'where': cinp['ctx']}

    def native_outcome(self, cinp, j):
        if j['outcome'] == 'panic': return native_panic(j)
        v = j['value']
        t = None
        if v.get('ber') is not None:
            t = tree_val(ber.py_decode(v['ber'])[0])
        return ('ret', {'out': bvs(v['esc']), 'tree': t, 'extra': cinp['ctx']})

    def summary(self, out, model=None):
        if out[0] == 'panic': return {'panic': out[1].msg}
        return {'filter': tree_json(out[1]['tree'], model) if out[1]['tree'] is not None else 'rejected'}

    def concrete_vectors(self, rng):
        return [dict(v, ctx=k) for v in EscapeLane.concrete_vectors(self, rng) for k in (0, 1) if len(v['v']) > 0][:16]


class DnEscape(EscapeLane):
    name = 'C09.dn_escape'
    cmd = 'dn_escape'

    def __init__(self, ctx, n):
        Lane.__init__(self, ctx, n); self.n = n

    def inputs(self):
        return {'v': sym_utf8(self.c, self.n)}

    def execute(self, inp):
        r = self.c.run_fn('dn_escape', [StrV(list(inp['v']))])
        return {'out': cow_bytes(r), 'borrowed': r.variant == 'Borrowed'}

    def oracle(self, inp, out):
        if out[0] == 'panic': return [('no panic', FALSE)]
        c = self.c; v = list(inp['v']); o = out[1]['out']
        n = len(v)
        obs = []
        try:
            back = ref_dn_value(c, o)
            obs.append(('"cn=" + dn_escape(v) + ",dc=x" is read by an RFC 4514 parser as two RDNs with value v', eq_term(SliceV(back), SliceV(v))))
        except RefReject as e:
            obs.append((f'escaped value is inert inside a DN ({e})', FALSE))
        needs = [z3.Or(*[b == x for x in b'"+,;<=>\\'] + [b == 0]) for b in v]
        if n:
            needs[0] = z3.Or(needs[0], v[0] == 0x20, v[0] == 0x23)
            needs[-1] = z3.Or(needs[-1], v[-1] == 0x20)
        need = or_all(needs)
        obs.append(('strings that need no escaping are returned unchanged', z3.Implies(z3.Not(need), eq_term(SliceV(o), SliceV(v)))))
        return obs


def body(chk):
    quick = chk.tier == 'quick'
    ns = (0, 1, 2, 3) if quick else (0, 1, 2, 3, 4, 5)
    for n in ns:
        b = {'string bytes': n, 'alphabet': 'all well-formed UTF-8 (z3 predicate), incl. NUL, metacharacters, multi-byte'}
        run_lane(chk, LdapEscape, (n,), bounds=b, selftest=(n == 3))
        if n <= (3 if quick else 4):
            run_lane(chk, DnEscape, (n,), bounds=b, selftest=(n == 3))
        run_lane(chk, UnescapeRoundTrip, (n,), bounds=b, selftest=False)
        if n <= (3 if quick else 4):
            run_lane(chk, FilterEmbedding, (n,), bounds=b, selftest=(n == 2))
    chk.assumptions += [
        'v ranges over all well-formed UTF-8 byte strings of the stated length (the functions take &str); longer strings are outside the bound',
        'RFC 4514 reader written for the check: hex pairs and special-character pairs, position rules for space and #; "cn=" prefix and ",dc=x" suffix are implied by the value reader rejecting every unescaped separator',
        'String::from_utf8 / str slicing are modelled with a UTF-8 well-formedness predicate and char-boundary checks',
    ]


if __name__ == '__main__':
    run_check('C09', body)
