"""Engine A runner: cargo kani on /verif/kani (path deps on /repo), one process per harness."""
import os
import re
import subprocess
import time
from concurrent.futures import ThreadPoolExecutor
from .framework import VERIF, WORK, KANI_DIR, Inconclusive


def _run_one(h, timeout, extra=(), playback=False):
    tdir = os.path.join(WORK, 'kani', h)
    os.makedirs(tdir, exist_ok=True)
    env = dict(os.environ, CARGO_NET_OFFLINE='true')
    args = ['cargo', 'kani', '--harness', h, '--target-dir', tdir] + list(extra)
    if playback:
        args += ['-Z', 'concrete-playback', '--concrete-playback=print']
    t0 = time.time()
    try:
        # 12 GB address-space cap per CBMC: an out-of-memory run must not take the box down
        p = subprocess.run(['bash', '-c', 'ulimit -v 16000000; exec "$@"', 'x'] + args, cwd=KANI_DIR, env=env,
                           stdout=subprocess.PIPE, stderr=subprocess.STDOUT, text=True, timeout=timeout)
        out = p.stdout
    except subprocess.TimeoutExpired as e:
        return {'harness': h, 'status': 'timeout', 'time_s': round(time.time() - t0, 1), 'out': (e.stdout or b'').decode(errors='replace')[-2000:] if isinstance(e.stdout, bytes) else (e.stdout or '')[-2000:]}
    res = {'harness': h, 'time_s': round(time.time() - t0, 1)}
    if 'VERIFICATION:- SUCCESSFUL' in out:
        res['status'] = 'success'
    elif 'VERIFICATION:- FAILED' in out:
        res['status'] = 'failed'
    else:
        res['status'] = 'error'
    m = re.search(r'\*\* (\d+) of (\d+) failed', out)
    if m:
        res['checks_failed'] = int(m.group(1)); res['vccs'] = int(m.group(2))
    m = re.search(r'\*\* (\d+) of (\d+) cover properties satisfied', out)
    if m:
        res['covers_sat'] = int(m.group(1)); res['covers'] = int(m.group(2))
    res['failed_checks'] = re.findall(r'Failed Checks: (.*)', out)
    if any('unwinding assertion' in f for f in res['failed_checks']):
        res['status'] = 'unwind-too-small'
    if 'Status: ERROR' in out or 'out of memory' in out.lower() or 'CBMC failed' in out:
        res['status'] = 'error'
    m = re.search(r'Verification Time: ([\d.]+)s', out)
    if m:
        res['verify_s'] = float(m.group(1))
    if playback:
        rows = []
        blk = re.search(r'let concrete_vals: Vec<Vec<u8>> = vec!\[(.*?)\];', out, re.S)
        if blk:
            for mm in re.finditer(r'vec!\[([\d,\s]*)\]', blk.group(1)):
                rows.append([int(x) for x in mm.group(1).replace('\n', ' ').split(',') if x.strip()])
        res['playback'] = rows
    res['tail'] = out[-1500:] if res['status'] in ('error',) else ''
    return res


def run_kani(harnesses, timeout=900, jobs=6):
    """harnesses: list of names -> dict name -> result"""
    lock = os.path.join(KANI_DIR, 'Cargo.lock')
    if not os.path.exists(lock):
        import shutil
        shutil.copy('/repo/Cargo.lock', lock)
    with ThreadPoolExecutor(max_workers=jobs) as ex:
        rs = list(ex.map(lambda h: _run_one(h, timeout), harnesses))
    return {r['harness']: r for r in rs}


def playback(h, timeout=900):
    return _run_one(h, timeout, playback=True)
