"""Lane B3, client side: SearchStream::{next, finish, state} with next_inner/finish_inner and the
EntriesOnly adapter (through the async_trait vtable), Ldap::search()'s collection loop, op_call's reply
wait, with the item / reply channels and the timer as scripted or nondeterministic environment stubs."""
import itertools
import z3
from .framework import *
from .lane import Lane, run_lane
from . import ber
from .scenarios import script, step, BIND, BIND_OK, ENTRY, REF, okres, stream_start
from mirsym.values import *
from mirsym.engine import TRUE, FALSE, clone_val
from mirsym.models import eq_term, and_all, or_all
from mirsym.models_async import Tok, EnvFut, PENDING, channel, poll_value

T = ber.prim
C = ber.cons
S = ber.bstr

# SearchResultDone with result code 3 and a referral of its own (as in the symbolic script)
DONE_REF = {'cl': 1, 'id': 5, 'c': [{'cl': 0, 'id': 10, 'p': [3]}, {'cl': 0, 'id': 4, 'p': []}, {'cl': 0, 'id': 4, 'p': []}, {'cl': 2, 'id': 3, 'c': [{'cl': 0, 'id': 4, 'p': list(b'ldap://done/')}]}]}
MORE_SCRIPTS = ['EEED', 'RRED', 'IIED', 'EREX', 'ERIEID', 'RX']          # thorough tier
SCRIPTS = ['ED', 'ERID', 'D', 'EX', 'RED', 'ID', 'X', 'EED']       # E entry, R reference, I intermediate, D done, X channel closed


def mk_handle(c):
    tx, rx = channel('req'); stx, srx = channel('scrub'); mtx, _ = channel('misc')
    ld = StructV('Ldap', [('msgmap', Tup([Tup([Tup([z3.BitVecVal(7, 32), SetV()])])])), ('tx', tx), ('id_scrub_tx', stx), ('misc_tx', mtx),
                          ('last_id', z3.BitVec('last_id', 32)), ('has_tls', FALSE), ('timeout', NONE()), ('controls', NONE()), ('search_opts', NONE())])
    return ld, tx, stx


def poll(c, coro):
    return c.run_fn(coro.body, [Tup([coro]), Opaque('Context')])


class StreamMachine(Lane):
    name = 'C10.stream_state_machine'

    def __init__(self, ctx, prop, maxcalls, adapters, scripts=None):
        Lane.__init__(self, ctx, prop, maxcalls, adapters, scripts); self.prop = prop; self.maxcalls = maxcalls; self.adapters = adapters
        self.scripts = list(scripts or SCRIPTS)

    def inputs(self):
        c = self.c
        sc = self.scripts[c.choose(len(self.scripts), 'script')]
        n = 1 + c.choose(self.maxcalls, 'ncalls')
        calls = ['nfs'[c.choose(3, f'call{i}')] for i in range(n)]
        items = []
        for i, k in enumerate(sc):
            ctl = VecV([]) if i % 2 else VecV([StructV('Control', [(0, NONE()), (1, StructV('RawControl', [('ctype', StrV(S('1.2'))), ('crit', z3.Bool(f'ic{i}')), ('val', NONE())]))])])
            if k == 'E': items.append(('E', C(1, 4, [T(0, 4, [z3.BitVec(f'e{i}', 8)]), C(0, 16, [])]), ctl))
            elif k == 'R':
                rb = z3.BitVec(f'r{i}', 8); c.assume(z3.ULT(rb, 0x80))       # a reference URI is text: well-formed server input
                items.append(('R', C(1, 19, [T(0, 4, [rb])]), ctl))
            elif k == 'I': items.append(('I', C(1, 25, [T(2, 0, [z3.BitVec(f'i{i}', 8)])]), ctl))
            elif k == 'D': items.append(('D', z3.BitVec('rc', 32), ctl))
            else: items.append(('X', None, None))
        # the connection may already be gone when the caller reads what the driver had queued for it
        return {'script': sc, 'calls': calls, 'items': items, 'adapter': self.adapters[c.choose(len(self.adapters), 'adapter')], 'closed': bool(c.choose(2, 'conn_closed'))}

    def mk_stream(self, d):
        c = self.c
        ld, tx, stx = mk_handle(c)
        tx.closed = bool(d.get('closed'))
        itx, irx = channel('items')
        q = []
        for k, v, ctl in d['items']:
            if k in ('E', 'I'): q.append(Tup([EnumV('SearchItem', 'Entry', [clone_val(v)]), clone_val(ctl)]))
            elif k == 'R': q.append(Tup([EnumV('SearchItem', 'Referral', [clone_val(v)]), clone_val(ctl)]))
            elif k == 'D':
                res = StructV('LdapResult', [('rc', v), ('matched', StrV([])), ('text', StrV([])), ('refs', VecV([StrV(S('ldap://done/'))])), ('ctrls', VecV([]))])
                q.append(Tup([EnumV('SearchItem', 'Done', [res]), clone_val(ctl)]))
            else: q.append('closed')
        irx.queue = q
        ads = []
        if d['adapter'] == 'EntriesOnly':
            ads.append(Tup([Tup([BoxV([StructV('EntriesOnly', [('refs', VecV([]))])])])]))
        st = StructV('SearchStream', [('ldap', ld), ('rx', Some(irx)), ('state', EnumV('StreamState', 'Active')), ('adapters', VecV(ads)), ('ax', z3.BitVecVal(0, 64)),
                                      ('timeout', NONE()), ('res', NONE())])
        return st, stx, irx

    def execute(self, d):
        c = self.c
        st, stx, irx = self.mk_stream(d)

        def recv_env(ctx, f):
            q = f.rx.queue
            if not q: return PENDING
            x = q.pop(0)
            if isinstance(x, str):
                q.insert(0, x); return NONE()
            return Some(x)
        c.env = {'recv': recv_env}
        results = []
        try:
            for k in d['calls']:
                try:
                    if k == 's':
                        results.append(('s', c.run_fn('SearchStream::state', [st])))
                    else:
                        coro = c.run_fn('SearchStream::next' if k == 'n' else 'SearchStream::finish', [st])
                        r = poll(c, coro)
                        results.append((k, r))
                        if r.variant == 'Pending': break
                except PanicExc as e:
                    results.append((k, e)); break
        finally:
            c.env = {}
        return {'results': results, 'scrubs': list(stx.sent), 'stream': st}

    def reference(self, d):
        """the property's state machine, as data: list of expected results per call"""
        q = list(d['items']); state = 'Active'; res = None; refs = []; out = []
        eo = d['adapter'] == 'EntriesOnly'
        for k in d['calls']:
            if k == 's':
                out.append(('s', state)); continue
            if k == 'n':
                if state != 'Active': out.append(('n', ('none',))); continue
                while True:
                    if not q:
                        out.append(('n', ('pending',))); break
                    kind, v, ctl = q[0]
                    if kind == 'X':
                        state = 'Error'; out.append(('n', ('err', 'EndOfStream'))); break
                    q.pop(0)
                    if kind == 'D':
                        state = 'Done'; res = (v, ctl); out.append(('n', ('none',))); break
                    if eo and kind == 'I': continue
                    if eo and kind == 'R':
                        refs.append(v); continue
                    out.append(('n', ('some', v, ctl))); break
                if out[-1][1][0] == 'pending': break
                continue
            if k == 'f':
                if state == 'Closed': out.append(('f', ('rc', 80))); continue
                was_done = state == 'Done'
                state = 'Closed'
                if res is not None and was_done:
                    out.append(('f', ('server', res[0], res[1], list(refs))))
                else:
                    out.append(('f', ('rc', 88)))
        return out

    def oracle(self, d, out):
        if out[0] == 'panic':
            return [('no panic', FALSE)]
        o = out[1]; ref = self.reference(d); got = o['results']
        obs = []
        for i, (k, r) in enumerate(got):
            if i >= len(ref): break
            want = ref[i][1]
            if isinstance(r, PanicExc):
                obs.append((f'call {i + 1} ({self.callname(k)}) does not panic', FALSE)); break
            if k == 's':
                obs.append((f'state() after call {i} is {want}', z3.BoolVal(r.variant == want)))
                continue
            if r.variant == 'Pending':
                obs.append((f'call {i + 1} completes when an item is available', z3.BoolVal(want[0] == 'pending'))); break
            v = r.fields[0]
            if k == 'n':
                if want[0] == 'none':
                    obs.append((f'call {i + 1}: next() yields Ok(None) (end of stream / not Active)', z3.BoolVal(v.variant == 'Ok' and v.fields[0].variant == 'None')))
                elif want[0] == 'err':
                    obs.append((f'call {i + 1}: next() on a closed item channel is EndOfStream', z3.BoolVal(v.variant == 'Err' and deref(v.fields[0]).variant == 'EndOfStream')))
                elif want[0] == 'some':
                    good = v.variant == 'Ok' and v.fields[0].variant == 'Some'
                    obs.append((f'call {i + 1}: next() yields the next server item', z3.BoolVal(good)))
                    if good:
                        re_ = v.fields[0].fields[0]
                        obs.append((f'call {i + 1}: the item is the one the server sent, in order, with its controls', z3.And(eq_term(re_.nth(0), want[1]), eq_term(re_.nth(1), want[2]))))
            else:
                if want[0] == 'rc':
                    obs.append((f'call {i + 1}: finish() yields the synthetic result code {want[1]}', v.fields['rc'] == want[1]))
                else:
                    _, rc, ctl, refs = want
                    obs.append((f'call {i + 1}: finish() yields the server\'s result with its controls', z3.And(v.fields['rc'] == rc, eq_term(v.fields['ctrls'], ctl))))
                    wrefs = VecV([StrV(S('ldap://done/'))] + [StrV([x.fields['payload'].fields[0].items[0].fields['payload'].fields[0].items[0]]) for x in refs])
                    if d['adapter'] == 'EntriesOnly':
                        obs.append((f'call {i + 1}: URIs of reference messages are merged into the referral list', eq_term(v.fields['refs'], wrefs)))
        if self.prop == 'C13':
            # early finish must release the ID (scrub), a stream read to the end needs none
            pass
        return obs

    @staticmethod
    def callname(k): return {'n': 'next', 'f': 'finish', 's': 'state'}[k]

    def case(self, cd):
        return self.scenario(cd)[2]

    def scenario(self, cd):
        kinds = {'E': ENTRY, 'R': REF, 'I': {'cl': 1, 'id': 25, 'c': [{'cl': 2, 'id': 0, 'p': [49]}]}}
        replies = []; close = False
        for k in cd['script']:
            if k in kinds: replies.append({'id': 'req', 'op': kinds[k]})
            elif k == 'D': replies.append({'id': 'req', 'op': DONE_REF})
            else: close = True
        gone = bool(cd.get('closed')) and not close
        steps = [BIND, stream_start(['EntriesOnly'] if cd['adapter'] == 'EntriesOnly' else [])] + ([{'do': 'sleep', 'ms': 150}] if gone else []) + [{'do': self.callname(k)} for k in cd['calls']]
        case = script(steps, [BIND_OK, {'replies': replies, 'close_after': close or gone}])
        return ('stream', 'stream', case)

    def replay_by_role(self, cd, obname, out, model):
        """the same item script and call sequence against the scripted peer; the reference state machine is
        evaluated on what the real API returned"""
        _, _, case = self.scenario(cd)
        nj = native([case])[0]
        if nj['outcome'] != 'ok': raise RuntimeError('replay failed: ' + json.dumps(nj)[:200])
        v = nj['value']
        ref = self.reference({'items': [(k, None, None) for k in cd['script']], 'calls': cd['calls'], 'adapter': cd['adapter'], 'script': cd['script']})
        got = [s for s in v['steps'][2:] if s['do'] != 'sleep']
        for i, (s_, (k, want)) in enumerate(zip(got, ref)):
            r = s_['r']; bad = None
            if isinstance(r, dict) and 'panic' in r: bad = f'{s_["do"]}() panicked: {r["panic"]}'
            elif k == 's' and r != want: bad = f'state() is {r}, expected {want}'
            elif k == 'n' and want[0] == 'none' and r != {'ok': None}: bad = f'next() returned {json.dumps(r)[:80]}, expected Ok(None)'
            elif k == 'n' and want[0] == 'some' and not (isinstance(r, dict) and r.get('ok')): bad = f'next() returned {json.dumps(r)[:80]}, expected an item'
            elif k == 'n' and want[0] == 'err' and not (isinstance(r, dict) and r.get('err') == 'EndOfStream'): bad = f'next() returned {json.dumps(r)[:80]}, expected EndOfStream'
            elif k == 'f' and want[0] == 'rc' and not (isinstance(r, dict) and r.get('ok', {}).get('rc') == want[1]): bad = f'finish() returned {json.dumps(r)[:80]}, expected rc {want[1]}'
            elif k == 'f' and want[0] == 'server' and not (isinstance(r, dict) and r.get('ok', {}).get('rc') == 3 and (cd['adapter'] == 'EntriesOnly' or [bytes(x) for x in r['ok']['refs']] == [b'ldap://done/'])): bad = f'finish() returned {json.dumps(r)[:80]}, expected the server result (rc 3, its referral)'
            elif k == 'f' and want[0] == 'server' and cd['adapter'] == 'EntriesOnly' and [bytes(x) for x in r['ok']['refs']] != [b'ldap://done/'] + [b'ldap://x/'] * len(want[3]): bad = f'finish() referral list {[bytes(x) for x in r["ok"]["refs"]]} is not the result\'s own referral followed by the {len(want[3])} reference URI(s)'
            if bad:
                role = 'direct-stream' if cd['adapter'] != 'EntriesOnly' else 'adapted-stream'
                kind = 'panic' if 'panicked' in bad else ('state' if k == 's' else self.callname(k))
                return True, f'{role}:{kind}:after-{"".join(cd["calls"][:i]) or "start"}'[:60] if False else f'{role}:{kind}', f'{cd["adapter"] or "direct"} stream, items {cd["script"]}, calls {"".join(cd["calls"])}: call {i + 1} {bad}', case, {'native': v['steps']}
        return False, None, None, case, {'native': v['steps']}

    def summary(self, out, model=None):
        if out[0] == 'panic': return {'panic': out[1].msg}
        res = []
        for k, r in out[1]['results']:
            if isinstance(r, PanicExc): res.append(f'{k}:panic({r.msg})')
            elif k == 's': res.append('s:' + r.variant)
            elif r.variant == 'Pending': res.append(k + ':pending')
            else:
                v = r.fields[0]
                res.append(k + ':' + (v.variant + ('/' + v.fields[0].variant if v.variant == 'Ok' and isinstance(v.fields[0], EnumV) else '') if isinstance(v, EnumV) else 'result'))
        return res

    def in_summary(self, d, model=None):
        return {'adapter': d['adapter'], 'script': d['script'], 'calls': ''.join(d['calls']), 'closed': d.get('closed')}

    def regions(self, d, out):
        return [str(d['adapter'])]


class SearchCollect(Lane):
    """Ldap::search(): directory entries in order, reference URIs merged into the result, intermediates dropped"""
    name = 'C10.search_collection'

    def inputs(self):
        c = self.c
        sc = ['ED', 'ERIED', 'D', 'RD', 'EX'][c.choose(5, 'script')]
        es = [z3.BitVec(f'e{i}', 8) for i in range(len(sc))]
        for i, k in enumerate(sc):
            if k == 'R': c.assume(z3.ULT(es[i], 0x80))
        return {'script': sc, 'rc': z3.BitVec('rc', 32), 'e': es}

    def execute(self, d):
        c = self.c
        ld, tx, stx = mk_handle(c)
        q = []
        for i, k in enumerate(d['script']):
            if k == 'E': q.append(Tup([EnumV('SearchItem', 'Entry', [C(1, 4, [T(0, 4, [d['e'][i]]), C(0, 16, [])])]), VecV([])]))
            elif k == 'I': q.append(Tup([EnumV('SearchItem', 'Entry', [C(1, 25, [T(2, 0, [d['e'][i]])])]), VecV([])]))
            elif k == 'R': q.append(Tup([EnumV('SearchItem', 'Referral', [C(1, 19, [T(0, 4, [d['e'][i]])])]), VecV([])]))
            elif k == 'D': q.append(Tup([EnumV('SearchItem', 'Done', [StructV('LdapResult', [('rc', d['rc']), ('matched', StrV([])), ('text', StrV([])), ('refs', VecV([])), ('ctrls', VecV([]))])]), VecV([])]))
            else: q.append('closed')
        holder = {}

        def recv_env(ctx, f):
            qq = f.rx.queue
            if not qq: return PENDING
            x = qq.pop(0)
            if isinstance(x, str):
                qq.insert(0, x); return NONE()
            return Some(x)

        def oneshot_env(ctx, f):
            # the driver acknowledges the start of the search
            return Ok(Tup([EnumV('Tag', 'Null', [StructV('Null', [('id', bv(5, 64)), ('class', ber.cls(0)), ('inner', UNIT)])]), VecV([])]))

        def send_env(ctx, txtok, val):
            txtok.sent.append(val)
            if txtok.name == 'req':
                op = deref(val[1])
                if op.variant == 'Search':
                    itx = deref(op.fields[0]); itx.peer.queue = q; holder['itx'] = itx
            return Ok(UNIT)
        c.env = {'recv': recv_env, 'recv_oneshot': oneshot_env, 'send': send_env}
        try:
            coro = c.run_fn('Ldap::search', [ld, StrV(S('dc=x')), EnumV('Scope', 'Subtree'), StrV(S('(a=b)')), VecV([StrV(S('cn'))])])
            r = poll(c, coro)
        finally:
            c.env = {}
        return {'poll': r, 'scrubs': list(stx.sent)}

    def oracle(self, d, out):
        if out[0] == 'panic': return [('no panic', FALSE)]
        r = out[1]['poll']
        if r.variant != 'Ready': return [('search() completes', FALSE)]
        v = r.fields[0]
        sc = d['script']
        if 'X' in sc:
            return [('a search whose item channel closes before Done fails, it does not return partial data', z3.BoolVal(v.variant == 'Err'))]
        if v.variant != 'Ok': return [('search() succeeds', FALSE)]
        sr = v.fields[0]; ents = sr.nth(0).items; res = sr.nth(1)
        want_e = [i for i, k in enumerate(sc) if k == 'E']
        obs = [('search() returns exactly the directory entries (no references, no intermediates)', z3.BoolVal(len(ents) == len(want_e)))]
        if len(ents) == len(want_e):
            for e, i in zip(ents, want_e):
                obs.append(('entries in server order', eq_term(e.nth(0), C(1, 4, [T(0, 4, [d['e'][i]]), C(0, 16, [])]))))
        obs.append(('result code is the server\'s', res.fields['rc'] == d['rc']))
        want_r = VecV([StrV([d['e'][i]]) for i, k in enumerate(sc) if k == 'R'])
        obs.append(('URIs of reference messages are merged into the referral list', eq_term(res.fields['refs'], want_r)))
        return obs

    def case(self, cd):
        kinds = {'E': ENTRY, 'R': REF, 'I': {'cl': 1, 'id': 25, 'c': [{'cl': 2, 'id': 0, 'p': [49]}]}}
        replies = [{'id': 'req', 'op': kinds[k]} if k in kinds else {'id': 'req', 'op': okres(5, 3)} for k in cd['script'] if k != 'X']
        return script([BIND, {'do': 'search', 'base': 'dc=x', 'scope': 2, 'filter': '(a=b)', 'attrs': ['cn']}], [BIND_OK, {'replies': replies, 'close_after': 'X' in cd['script']}])

    def replay_by_role(self, cd, obname, out, model):
        case = self.case(cd)
        v = native([case])[0]['value']
        r = step(v, 'search'); sc = cd['script']; bad = None
        if 'X' in sc:
            if not (isinstance(r, dict) and 'err' in r): bad = f'search() returned {json.dumps(r)[:100]} although the connection closed before Done'
        elif not (isinstance(r, dict) and 'ok' in r): bad = f'search() failed: {json.dumps(r)[:100]}'
        else:
            ne = sum(1 for k in sc if k == 'E'); nr = sum(1 for k in sc if k == 'R')
            if len(r['ok']['entries']) != ne: bad = f'{len(r["ok"]["entries"])} entries returned, server sent {ne}'
            elif len(r['ok']['result']['refs']) != nr: bad = f'referral list {r["ok"]["result"]["refs"]} vs {nr} reference message(s)'
            elif r['ok']['result']['rc'] != 3: bad = f'rc {r["ok"]["result"]["rc"]} != 3'
        return bool(bad), 'search():' + (obname[:40]), f'search() with items {sc}: {bad}' if bad else None, case, {'native': r}

    def summary(self, out, model=None):
        if out[0] == 'panic': return {'panic': out[1].msg}
        r = out[1]['poll']
        return r.variant + (':' + r.fields[0].variant if r.fields else '')

    def in_summary(self, d, model=None):
        return {'script': d['script']}

    def regions(self, d, out):
        return [d['script']]


class OpCall(Lane):
    """the whole body of Ldap::op_call: queueing, the (timed) wait for the reply, scrub on expiry, conversion"""
    name = 'client.op_call'

    def __init__(self, ctx, prop):
        Lane.__init__(self, ctx, prop); self.prop = prop

    def inputs(self):
        c = self.c
        d = {'timed': bool(c.choose(2, 'timed')), 'send_ok': bool(c.choose(2, 'send_ok'))}
        d['answer'] = ['reply', 'closed', 'elapsed'][c.choose(3 if d['timed'] else 2, 'answer')]
        d['scrub_ok'] = bool(c.choose(2, 'scrub_ok')) if d['answer'] == 'elapsed' else True
        d['rc'] = z3.BitVec('rc', 8); d['last'] = z3.BitVec('last', 32)
        return d

    def execute(self, d):
        c = self.c
        c.assume(z3.And(d['last'] >= 0, d['last'] < (1 << 31) - 1))
        ld, tx, stx = mk_handle(c)
        ld.fields['msgmap'][0][0][0] = d['last']
        ld.fields['msgmap'][0][0][1] = ZSet(z3.Array('inuse', z3.BitVecSort(32), z3.BoolSort()), 1)
        if d['timed']:
            ld.fields['timeout'] = Some(StructV('Duration', [('secs', z3.BitVecVal(1, 64)), ('nanos', z3.BitVecVal(0, 32))]))
        reply = Tup([EnumV('Tag', 'StructureTag', [C(1, 11, [T(0, 10, [d['rc']]), T(0, 4, []), T(0, 4, [])])]), VecV([])])
        waits = []

        def send_env(ctx, t, val):
            ok = d['send_ok'] if t.name == 'req' else d['scrub_ok']
            if not ok: return Err(StructV('SendError', [(0, val)]))
            t.sent.append(val); return Ok(UNIT)

        def rx_answer():
            return Ok(reply) if d['answer'] == 'reply' else Err(Opaque('RecvError'))
        c.env = {'send': send_env, 'recv_oneshot': lambda ctx, f: (waits.append('rx'), rx_answer())[1],
                 'timeout': lambda ctx, f: (waits.append('timeout'), Err(Opaque('Elapsed')) if d['answer'] == 'elapsed' else Ok(rx_answer()))[1]}
        try:
            coro = c.run_fn('Ldap::op_call', [ld, EnumV('LdapOp', 'Single'), EnumV('Tag', 'StructureTag', [T(1, 10, S('dc=x'))])])
            r = poll(c, coro)
        finally:
            c.env = {}
        return {'poll': r, 'queued': list(tx.sent), 'scrubs': list(stx.sent), 'waits': waits, 'ld': ld}

    def oracle(self, d, out):
        if out[0] == 'panic': return [('no panic', FALSE)]
        o = out[1]; r = o['poll']
        if r.variant != 'Ready': return [('the operation completes once its channels answer', FALSE)]
        v = r.fields[0]
        errk = deref(v.fields[0]).variant if v.variant == 'Err' and isinstance(deref(v.fields[0]), EnumV) else None
        obs = []
        if not d['send_ok']:
            return [('with the driver gone the operation fails immediately (OpSend) and returns no data', z3.BoolVal(errk == 'OpSend' and not o['waits']))]
        obs.append(('queued exactly once under the freshly allocated ID', z3.BoolVal(len(o['queued']) == 1) if len(o['queued']) != 1 else o['queued'][0][0] == o['ld'].fields['last_id']))
        if d['answer'] == 'closed':
            obs.append(('a reply channel closed by the driver is an error (ResultRecv), never data', z3.BoolVal(errk == 'ResultRecv')))
            obs.append(('no scrub for an operation that did not time out', z3.BoolVal(len(o['scrubs']) == 0)))
        elif d['answer'] == 'reply':
            good = v.variant == 'Ok'
            obs.append(('a delivered reply is returned', z3.BoolVal(good)))
            if good:
                obs.append(('...with the result code the server sent', v.fields[0][0].fields['rc'] == z3.ZeroExt(24, d['rc'])))
            obs.append(('no scrub when the reply arrived in time', z3.BoolVal(len(o['scrubs']) == 0)))
        else:
            if d['scrub_ok']:
                obs.append(('expiry returns a timeout error', z3.BoolVal(errk == 'Timeout')))
                obs.append(('expiry sends exactly one scrub, for this operation\'s own ID', z3.BoolVal(len(o['scrubs']) == 1) if len(o['scrubs']) != 1 else z3.And(o['scrubs'][0] == o['ld'].fields['last_id'], o['scrubs'][0] == o['queued'][0][0])))
            else:
                obs.append(('expiry with the driver gone is still an error', z3.BoolVal(v.variant == 'Err')))
        obs.append(('the wait is timed exactly when a timeout was set', z3.BoolVal(o['waits'] == (['timeout'] if d['timed'] else ['rx']))))
        return obs

    def replay_by_role(self, cd, obname, out, model):
        if cd['answer'] == 'elapsed' or 'scrub' in obname or 'timeout' in obname.lower():
            case = script([BIND, {'do': 'with_timeout', 'ms': 60}, {'do': 'delete', 'dn': 'dc=x'}, {'do': 'delete', 'dn': 'dc=y'}, {'do': 'snapshot'}],
                          [BIND_OK, {'delay_ms': 250, 'replies': [{'id': 'req', 'op': okres(11)}]}, {'replies': [{'id': 'req', 'op': okres(11, 7)}]}])
            v = native([case])[0]['value']
            r1, r2, sn = step(v, 'delete', 0), step(v, 'delete', 1), step(v, 'snapshot')
            bad = None
            if not (isinstance(r1, dict) and r1.get('err') == 'Timeout'): bad = f'timed operation returned {json.dumps(r1)[:80]} instead of a timeout error'
            elif not (isinstance(r2, dict) and r2.get('ok', {}).get('rc') == 7): bad = f'the operation after the timeout returned {json.dumps(r2)[:100]} (late reply misdelivered or connection unusable)'
            elif sn and sn['inuse']: bad = f'IDs still reserved after a timeout: {sn["inuse"]}'
            return bool(bad), 'op-timeout', f'operation timeout: {bad}' if bad else None, case, {'native': v['steps']}
        case = script([BIND, {'do': 'delete', 'dn': 'dc=x'}, {'do': 'delete', 'dn': 'dc=y'}], [BIND_OK, {'replies': [], 'close_after': True}])
        v = native([case])[0]['value']
        r1, r2 = step(v, 'delete', 0), step(v, 'delete', 1)
        bad = None
        if not (isinstance(r1, dict) and 'err' in r1): bad = f'operation pending at disconnect returned {json.dumps(r1)[:80]}'
        elif not (isinstance(r2, dict) and 'err' in r2): bad = f'operation after disconnect returned {json.dumps(r2)[:80]}'
        return bool(bad), 'op-disconnect', f'disconnect: {bad}' if bad else None, case, {'native': v['steps']}

    def case(self, cd): return {}

    def summary(self, out, model=None):
        if out[0] == 'panic': return {'panic': out[1].msg}
        o = out[1]; r = o['poll']
        return {'poll': r.variant, 'result': (r.fields[0].variant + ('/' + deref(r.fields[0].fields[0]).variant if r.fields[0].variant == 'Err' and isinstance(deref(r.fields[0].fields[0]), EnumV) else '')) if r.fields else None,
                'scrubs': len(o['scrubs']), 'waits': o['waits']}

    def in_summary(self, d, model=None):
        return {k: d[k] for k in ('timed', 'send_ok', 'answer', 'scrub_ok')}

    def regions(self, d, out):
        return [d['answer'] + ('+timed' if d['timed'] else '')]


class TimedStream(Lane):
    """a direct stream with a per-item timeout: every next() waits under a fresh timer; expiry scrubs the search's
    ID and reports Timeout; a closed item channel is EndOfStream; finish() before the end scrubs, after it does not"""
    name = 'client.timed_stream'

    def __init__(self, ctx, prop, maxn=3):
        Lane.__init__(self, ctx, prop, maxn); self.prop = prop; self.maxn = maxn

    def inputs(self):
        c = self.c
        n = 1 + c.choose(self.maxn, 'ncalls')
        return {'timed': bool(c.choose(2, 'timed')), 'answers': [['item', 'done', 'elapsed', 'closed'][c.choose(4, f'ans{i}')] for i in range(n)], 'finish': bool(c.choose(2, 'finish')),
                'conn_gone': bool(c.choose(2, 'conn_gone'))}        # the driver may already have exited while its last deliveries are still queued

    def execute(self, d):
        c = self.c
        ld, tx, stx = mk_handle(c)
        tx.closed = bool(d.get('conn_gone'))
        itx, irx = channel('items')
        st = StructV('SearchStream', [('ldap', ld), ('rx', Some(irx)), ('state', EnumV('StreamState', 'Active')), ('adapters', VecV([])), ('ax', z3.BitVecVal(0, 64)),
                                      ('timeout', Some(StructV('Duration', [('secs', z3.BitVecVal(1, 64)), ('nanos', z3.BitVecVal(0, 32))])) if d['timed'] else NONE()), ('res', NONE())])
        waits = []; idx = [0]

        def item(kind):
            if kind == 'item': return Some(Tup([EnumV('SearchItem', 'Entry', [C(1, 4, [T(0, 4, S('x')), C(0, 16, [])])]), VecV([])]))
            if kind == 'done': return Some(Tup([EnumV('SearchItem', 'Done', [StructV('LdapResult', [('rc', z3.BitVecVal(0, 32)), ('matched', StrV([])), ('text', StrV([])), ('refs', VecV([])), ('ctrls', VecV([]))])]), VecV([])]))
            return NONE()

        def cur():
            # beyond the scripted answers nothing more is queued
            a = d['answers'][idx[0]] if idx[0] < len(d['answers']) else 'nothing'; idx[0] += 1; return a
        c.env = {'recv': lambda ctx, f: (waits.append('recv'), (lambda a: PENDING if a == 'nothing' else item(a))(cur()))[1],
                 'timeout': lambda ctx, f: (waits.append('timeout'), (lambda a: Err(Opaque('Elapsed')) if a in ('elapsed', 'nothing') else Ok(item(a)))(cur()))[1]}
        results = []
        try:
            for a in d['answers']:
                if not d['timed'] and a == 'elapsed': a_ = None
                try:
                    r = poll(c, c.run_fn('SearchStream::next', [st]))
                except PanicExc as e:
                    results.append(e); break
                results.append(r)
                v = r.fields[0] if r.variant == 'Ready' else None
                if v is None or v.variant == 'Err' or v.fields[0].variant == 'None': break
            fin = None
            if d['finish']:
                fin = poll(c, c.run_fn('SearchStream::finish', [st]))
        finally:
            c.env = {}
        return {'results': results, 'finish': fin, 'scrubs': list(stx.sent), 'waits': waits, 'ld': ld, 'state': st.fields['state'].variant}

    def oracle(self, d, out):
        if out[0] == 'panic': return [('no panic', FALSE)]
        o = out[1]; obs = []
        answers = [a if (d['timed'] or a != 'elapsed') else 'closed' for a in d['answers']]
        nscrub = 0; ended = None
        for i, r in enumerate(o['results']):
            if isinstance(r, PanicExc): return [(f'next() call {i + 1} does not panic', FALSE)]
            a = answers[i]
            v = r.fields[0]
            errk = deref(v.fields[0]).variant if v.variant == 'Err' and isinstance(deref(v.fields[0]), EnumV) else None
            if a == 'item': obs.append((f'item {i + 1} is delivered', z3.BoolVal(v.variant == 'Ok' and v.fields[0].variant == 'Some')))
            elif a == 'done': obs.append((f'Done ends the stream with Ok(None)', z3.BoolVal(v.variant == 'Ok' and v.fields[0].variant == 'None'))); ended = 'done'
            elif a == 'elapsed':
                obs.append((f'item wait {i + 1}: expiry is a timeout error', z3.BoolVal(errk == 'Timeout'))); nscrub += 1; ended = 'err'
            else:
                obs.append((f'a closed item channel is EndOfStream, never data', z3.BoolVal(errk == 'EndOfStream'))); ended = 'err'
        ncalls = len(o['results'])
        obs.append(('every item wait runs under its own timer exactly when a timeout was set (the timer restarts with every item)', z3.BoolVal(o['waits'] == (['timeout'] if d['timed'] else ['recv']) * ncalls)))
        if d['finish'] and ended != 'done':
            nscrub += 1
        obs.append(('scrubs: one per expiry, one for a finish() before the end of the search, none after Done; each names the search\'s own ID',
                    z3.BoolVal(len(o['scrubs']) == nscrub) if len(o['scrubs']) != nscrub else and_all([x == o['ld'].fields['last_id'] for x in o['scrubs']])))
        if ended == 'err':
            obs.append(('the stream is in the Error state after a failure', z3.BoolVal(o['state'] in ('Error', 'Closed'))))
        return obs

    def replay_by_role(self, cd, obname, out, model):
        answers = list(cd['answers'])
        if cd.get('conn_gone') and ('is delivered' in obname or 'Done ends the stream' in obname):
            # the server answers the search completely and hangs up before the caller reads
            k = sum(1 for a in answers if a == 'item')
            case = script([BIND, stream_start([]), {'do': 'sleep', 'ms': 150}] + [{'do': 'next'}] * (k + 1) + [{'do': 'finish'}],
                          [BIND_OK, {'replies': [{'id': 'req', 'op': ENTRY}] * k + [{'id': 'req', 'op': okres(5, 3)}], 'close_after': True}])
            v = native([case])[0]['value']
            nx = [s_['r'] for s_ in v['steps'] if s_['do'] == 'next']
            got = sum(1 for r in nx if isinstance(r, dict) and r.get('ok'))
            fin = step(v, 'finish')
            bad = None
            if got != k: bad = f'{got} of {k} delivered entries were returned after the server closed the connection: {json.dumps(nx)[:120]}'
            elif not (isinstance(fin, dict) and fin.get('ok', {}).get('rc') == 3): bad = f'the delivered final result was not returned: {json.dumps(fin)[:100]}'
            return bool(bad), 'delivered-items-lost-on-close', f'search answered completely, then connection closed: {bad}' if bad else None, case, {'native': v['steps']}
        if 'closed item channel' in obname or 'Error state after a failure' in obname:
            # the connection dies in the middle of a search: k entries arrived, then the server hangs up
            k = 0
            for a in answers:
                if a != 'item': break
                k += 1
            case = script([BIND, stream_start([])] + [{'do': 'next'}] * (k + 1) + [{'do': 'state'}], [BIND_OK, {'replies': [{'id': 'req', 'op': ENTRY}] * k, 'close_after': True}])
            v = native([case])[0]['value']
            nx = [s_['r'] for s_ in v['steps'] if s_['do'] == 'next']; stt = step(v, 'state')
            bad = None
            if not (isinstance(nx[-1], dict) and nx[-1].get('err') == 'EndOfStream'): bad = f'next() after the connection was lost mid-search returned {json.dumps(nx[-1])[:80]} instead of EndOfStream'
            elif stt != 'Error': bad = f'the stream state after the failure is {stt}'
            return bool(bad), 'search-cut-short-looks-complete', f'connection lost in the middle of a search: {bad}' if bad else None, case, {'native': v['steps']}
        if 'elapsed' not in answers or not cd['timed']:
            # a stream that fails (or is simply abandoned) while the search is still open at the server, then finish():
            # natively the failure comes from an adapter rejecting an item after `k` delivered ones
            k = 0
            for a in answers:
                if a != 'item': break
                k += 1
            fails = k < len(answers) and answers[k] == 'closed'
            steps = [BIND, stream_start([{'FailAfter': k}] if fails else [])] + [{'do': 'next'}] * (k + (1 if fails else 0)) + ([{'do': 'finish'}] if cd['finish'] else [{'do': 'drop_stream'}]) + [{'do': 'snapshot'}, {'do': 'delete', 'dn': 'dc=y'}]
            case = script(steps, [BIND_OK, {'replies': [{'id': 'req', 'op': ENTRY}] * (k + 1)}, {'replies': [{'id': 'req', 'op': okres(11, 7)}]}])
            v = native([case])[0]['value']
            sn, dl = step(v, 'snapshot'), step(v, 'delete')
            bad = None
            if cd['finish'] and sn and sn['inuse']: bad = f'finish() of a stream that {"failed" if fails else "was not read to the end"} leaves its ID reserved: {sn["inuse"]}'
            elif not (isinstance(dl, dict) and dl.get('ok', {}).get('rc') == 7): bad = f'connection unusable afterwards: {json.dumps(dl)[:80]}'
            return bool(bad), 'unfinished-search-finish', f'search finished before its end: {bad}' if bad else None, case, {'native': v['steps']}
        # a timed search: first item arrives, then the server stalls
        case = script([BIND, {'do': 'with_timeout', 'ms': 80}, stream_start([]), {'do': 'next'}, {'do': 'next'}, {'do': 'drop_stream'}, {'do': 'snapshot'}, {'do': 'delete', 'dn': 'dc=y'}],
                      [BIND_OK, {'replies': [{'id': 'req', 'op': ENTRY}]}, {'replies': [{'id': 'req', 'op': okres(11, 7)}]}])
        v = native([case])[0]['value']
        n1, n2, sn, dl = step(v, 'next', 0), step(v, 'next', 1), step(v, 'snapshot'), step(v, 'delete')
        bad = None
        if not (isinstance(n1, dict) and n1.get('ok')): bad = f'first item not delivered: {json.dumps(n1)[:80]}'
        elif not (isinstance(n2, dict) and n2.get('err') == 'Timeout'): bad = f'the wait for the second item did not time out: {json.dumps(n2)[:80]} (the timer does not restart with every item)'
        elif sn and sn['inuse']: bad = f'the timed-out search keeps its ID reserved: {sn["inuse"]}'
        elif not (isinstance(dl, dict) and dl.get('ok', {}).get('rc') == 7): bad = f'connection unusable after a search timeout: {json.dumps(dl)[:80]}'
        return bool(bad), 'search-item-timeout', f'timed search: {bad}' if bad else None, case, {'native': v['steps']}

    def case(self, cd): return {}

    def summary(self, out, model=None):
        if out[0] == 'panic': return {'panic': out[1].msg}
        o = out[1]
        return {'waits': o['waits'], 'scrubs': len(o['scrubs']), 'state': o['state'], 'calls': len(o['results'])}

    def in_summary(self, d, model=None):
        return d

    def regions(self, d, out):
        return list({('timed:' if d['timed'] else '') + a for a in d['answers']})


def extra_lanes(chk, pid):
    quick = chk.tier == 'quick'
    if pid == 'C10':
        mc = 4 if quick else 7
        scripts = SCRIPTS if quick else SCRIPTS + MORE_SCRIPTS
        run_lane(chk, StreamMachine, ('C10', mc, [None, 'EntriesOnly'], scripts), bounds={'item scripts': scripts, 'call sequences': f'every word over next/finish/state of length 1..{mc}', 'adapters': 'direct | EntriesOnly',
                                                                                 'contents': 'entry/reference bytes, result code, control criticality symbolic'}, selftest=False, need_regions=('None', 'EntriesOnly'))
        run_lane(chk, SearchCollect, (), bounds={'item scripts': ['ED', 'ERIED', 'D', 'RD', 'EX'], 'contents': 'symbolic'}, selftest=False, need_regions=('ERIED', 'EX'))
    if pid == 'C04':
        # the collecting search(): a connection lost before SearchResultDone is an error, never a (partial) result
        run_lane(chk, SearchCollect, (), bounds={'item scripts': ['ED', 'ERIED', 'D', 'RD', 'EX'], 'contents': 'symbolic'}, selftest=False, need_regions=('EX',))
    if pid in ('C04', 'C12', 'C13'):
        run_lane(chk, OpCall, (pid,), bounds={'reply wait': 'timed or not', 'request channel': 'open | closed', 'answer': 'reply | reply channel closed | timer elapsed', 'scrub channel': 'open | closed'}, selftest=False,
                 need_regions=('reply', 'closed', 'elapsed+timed'))
        tn = 3 if quick else 5
        run_lane(chk, TimedStream, (pid, tn), bounds={'calls to next()': f'1..{tn}', 'answer per item wait': 'item | done | timer elapsed | channel closed', 'per-item timeout': 'set or not', 'finish() afterwards': 'yes | no'}, selftest=False,
                 need_regions=('timed:elapsed', 'timed:item', 'closed'))
