"""Lane B3 on the connection driver: ONE iteration of the real `LdapConnAsync::turn` coroutine from
an arbitrary pre-state satisfying the representation invariant, with every awaited foreign future
answered by an environment stub.  Which sources are ready, what they yield, the start index of
tokio::select!'s rotation and the answers of the socket are all solver variables / explicit choices.
Used by C01 (routing), C04 (failure propagation, safety half), C05/C13 (release sites), C11 (driver
reaction to bad input), C12 (scrub)."""
import z3
from .framework import *
from .lane import Lane, run_lane
from . import ber
from mirsym.values import *
from mirsym.engine import TRUE, FALSE, clone_val
from mirsym.models import eq_term, and_all, or_all
from mirsym.models_async import Tok, EnvFut, PENDING, channel, poll_value

T = ber.prim
C = ber.cons

EVENTS = ['all-closed', 'scrub', 'scrub-closed', 'op-single', 'op-search', 'op-abandon', 'op-unbind', 'op-closed', 'misc-closed', 'resp', 'resp-eof', 'resp-err', 'none']


class DriverStep(Lane):
    name = 'driver.one_iteration'

    def __init__(self, ctx, prop, nres, nsearch):
        if ctx is not None:
            Lane.__init__(self, ctx, prop, nres, nsearch)
        self.prop = prop; self.nres = nres; self.nsearch = nsearch

    # ---------------------------------------------------------------- pre-state and event
    def inputs(self):
        c = self.c
        evs = [e for e in EVENTS if self.want_event(e)]
        ev_ = evs[c.choose(len(evs), 'event')]
        d = {'event': ev_}
        d['rkeys'] = [z3.BitVec(f'k{i}', 32) for i in range(self.nres)]
        d['skeys'] = [z3.BitVec(f's{i}', 32) for i in range(self.nsearch)]
        keys = d['rkeys'] + d['skeys']
        d['arr'] = z3.Array('inuse', z3.BitVecSort(32), z3.BoolSort())
        # representation invariant: routing keys are pairwise distinct, positive and marked in use
        for i, k in enumerate(keys):
            c.assume(k >= 1); c.assume(z3.Select(d['arr'], k))
            for k2 in keys[:i]: c.assume(k != k2)
        d['id'] = z3.BitVec('evid', 32)
        if ev_.startswith('op-'):
            # a new operation carries an ID freshly taken by next_msgid: positive, in use, not routed yet
            c.assume(d['id'] >= 1); c.assume(z3.Select(d['arr'], d['id']))
            for k in keys: c.assume(d['id'] != k)
        if ev_ == 'op-abandon':
            d['abid'] = z3.BitVec('abid', 32)
        if ev_ == 'resp':
            d['optag'] = z3.BitVec('optag', 64)
            c.assume(z3.ULE(d['optag'], 30))
            d['rc'] = z3.BitVec('rc', 8)
            d['send_fails'] = bool(c.choose(2, 'search_rx_dropped')) if self.nsearch else False
            d['result_rx_dropped'] = bool(c.choose(2, 'result_rx_dropped')) if self.prop in ('C13', 'C05') else False
        if ev_.startswith('op-') and ev_ != 'op-closed':
            d['sock_send_ok'] = bool(c.choose(2, 'sock_send_ok'))
            if ev_ == 'op-unbind':
                d['shutdown_ok'] = bool(c.choose(2, 'shutdown_ok')); d['close_ok'] = bool(c.choose(2, 'close_ok'))
        # a second source may be ready at the same time; select! then takes whichever it polls first
        d['also_scrub'] = bool(c.choose(2, 'also_scrub')) if ev_ in ('resp', 'op-single') and self.prop == 'C01' else False
        if d['also_scrub']: d['id2'] = z3.BitVec('scrub2', 32)
        return d

    def want_event(self, e):
        p = self.prop
        if p == 'C01': return e in ('resp', 'op-single', 'op-search', 'none')
        if p == 'C04': return e in ('all-closed', 'resp-eof', 'resp-err', 'op-closed', 'op-unbind', 'op-single', 'op-search', 'op-abandon', 'scrub-closed', 'misc-closed')
        if p == 'C11': return e in ('resp', 'resp-err')
        if p == 'C12': return e in ('scrub', 'resp')
        if p in ('C13', 'C05'): return e in ('scrub', 'resp', 'op-single', 'op-search', 'op-abandon', 'op-unbind')
        return True

    def execute(self, d):
        c = self.c; ev_ = d['event']
        zs = ZSet(d['arr'], 64)
        rtoks = [Tok('tx', f'oneshot-res{i}') for i in range(self.nres)]
        stoks = [Tok('tx', f'search{i}') for i in range(self.nsearch)]
        for t in rtoks + stoks:
            _, rx = channel(t.name + '-rx'); t.peer = rx
        if ev_ == 'resp' and d.get('send_fails') and stoks:
            for t in stoks: t.peer.dropped = True
        if ev_ == 'resp' and d.get('result_rx_dropped'):
            for t in rtoks: t.peer.dropped = True
        resultmap = MapV(list(zip(d['rkeys'], rtoks))); searchmap = MapV(list(zip(d['skeys'], stoks)))
        rx = Tok('rx', 'req'); scrub = Tok('rx', 'scrub'); misc = Tok('rx', 'misc')
        msgmap = Tup([Tup([Tup([z3.BitVec('last', 32), zs])])])
        framed = Opaque('Framed')
        conn = StructV('LdapConnAsync', [('msgmap', msgmap), ('resultmap', resultmap), ('searchmap', searchmap), ('rx', rx), ('id_scrub_rx', scrub), ('misc_rx', misc), ('stream', framed)])
        newtx = Tok('tx', 'newop-reply'); _, nrx = channel('newop-rx'); newtx.peer = nrx
        search_tx = Tok('tx', 'newsearch-items'); _, srx = channel('newsearch-rx'); search_tx.peer = srx
        req_tag = EnumV('Tag', 'StructureTag', [T(1, 10, ber.bstr('dc=x'))])
        ctrls = NONE()
        log = {'consumed': [], 'sock': [], 'polls': 0}
        state = {'done': False}

        resp_ctrls = VecV([])
        if ev_ == 'resp' and '_inject' not in d:
            body = [T(0, 10, [d['rc']]), T(0, 4, []), T(0, 4, [])]
            protoop = C(1, d['optag'], body)
            d['_protoop'] = protoop

        def recv_env(ctx, f):
            nm = f.rx.name
            if ev_ == 'all-closed':
                log['polls'] += 1
                if log['polls'] > 6: return PENDING          # bound: at most a few loop iterations are followed
                log['consumed'].append(nm)
                return NONE()
            if state['done']: return PENDING
            if nm == 'scrub':
                if ev_ == 'scrub': state['done'] = True; log['consumed'].append('scrub'); return Some(d['id'])
                if ev_ == 'scrub-closed': state['done'] = True; log['consumed'].append('scrub'); return NONE()
                if d.get('also_scrub'): state['done'] = True; log['consumed'].append('scrub2'); return Some(d['id2'])
                return PENDING
            if nm == 'req':
                if ev_ == 'op-closed': state['done'] = True; log['consumed'].append('req'); return NONE()
                if ev_.startswith('op-'):
                    state['done'] = True; log['consumed'].append('req')
                    op = {'op-single': EnumV('LdapOp', 'Single'), 'op-search': EnumV('LdapOp', 'Search', [search_tx]), 'op-abandon': EnumV('LdapOp', 'Abandon', [d.get('abid')]), 'op-unbind': EnumV('LdapOp', 'Unbind')}[ev_]
                    return Some(Tup([d['id'], op, req_tag, ctrls, newtx]))
                return PENDING
            if nm == 'misc':
                if ev_ == 'misc-closed': state['done'] = True; log['consumed'].append('misc'); return NONE()
                return PENDING
            return PENDING

        def next_env(ctx, f):
            if state['done']: return PENDING
            if ev_ == 'resp':
                state['done'] = True; log['consumed'].append('stream')
                if '_inject' in d:
                    return Some(Ok(clone_val(d['_inject'])))         # an item exactly as the real decoder produced it (C11)
                return Some(Ok(Tup([d['id'], Tup([EnumV('Tag', 'StructureTag', [clone_val(d['_protoop'])]), resp_ctrls])])))
            if ev_ == 'resp-eof': state['done'] = True; log['consumed'].append('stream'); return NONE()
            if ev_ == 'resp-err': state['done'] = True; log['consumed'].append('stream'); return Some(Err(Opaque('io::Error', 'decoding error')))
            return PENDING

        def sock(kind, okkey):
            def h(ctx, f):
                log['sock'].append((kind, f.args))
                return Ok(UNIT) if d.get(okkey, True) else Err(Opaque('io::Error', kind))
            return h
        c.env = {'recv': recv_env, 'framed:next': next_env, 'framed:send': sock('send', 'sock_send_ok'), 'framed:shutdown': sock('shutdown', 'shutdown_ok'), 'framed:close': sock('close', 'close_ok')}
        try:
            coro = c.run_fn('LdapConnAsync::turn', [conn, EnumV('LoopMode', 'Continuous')])
            r = c.run_fn(coro.body, [Tup([coro]), Opaque('Context')])
        finally:
            c.env = {}
        return {'poll': r, 'conn': conn, 'rtoks': rtoks, 'stoks': stoks, 'newtx': newtx, 'search_tx': search_tx, 'zs': zs, 'log': log, 'resp_ctrls': resp_ctrls}

    # ---------------------------------------------------------------- helpers for the oracles
    @staticmethod
    def map_is(m, pairs):
        """the association list holds exactly these (key, token) pairs (keys compared by z3 equality)"""
        items = m.items
        if len(items) != len(pairs): return FALSE
        return and_all([and_all([k == pk, z3.BoolVal(v is pv)]) for (k, v), (pk, pv) in zip(items, pairs)])

    def inuse_is(self, zs, old, removed):
        x = z3.BitVec('anyid', 32)
        return z3.Select(zs.arr, x) == z3.And(z3.Select(old, x), *[x != r for r in removed])

    def oracle(self, d, out):
        obs = self.oracle_(d, out)
        if out[0] != 'panic' and self.prop in ('C01', 'C13', 'C05') and out[1]['poll'].variant == 'Pending' and d['event'] != 'all-closed':
            # closes the induction: the invariant assumed of the pre-state holds of the post-state
            conn = out[1]['conn']; keys = [k for k, _ in conn.fields['resultmap'].items] + [k for k, _ in conn.fields['searchmap'].items]
            inv = [z3.And(k >= 1, z3.Select(out[1]['zs'].arr, k)) for k in keys] + [a != b for i, a in enumerate(keys) for b in keys[:i]]
            obs.append(('the representation invariant (routing keys pairwise distinct, positive, members of the in-use set) holds again after the step', and_all(inv) if inv else TRUE))
        return obs

    def oracle_(self, d, out):
        if out[0] == 'panic':
            if self.prop in ('C11', 'C01', 'C04', 'C13', 'C12', 'C05'):
                return [('the driver never panics', FALSE)]
        o = out[1]; ev_ = d['event']; c = self.c
        conn = o['conn']; rm = conn.fields['resultmap']; sm = conn.fields['searchmap']
        rpairs = list(zip(d['rkeys'], o['rtoks'])); spairs = list(zip(d['skeys'], o['stoks']))
        poll = o['poll']; ready = poll.variant == 'Ready'
        obs = []
        P = self.prop
        nothing_delivered = z3.BoolVal(all(len(t.sent) == 0 for t in o['rtoks'] + o['stoks']))
        if ev_ == 'all-closed':
            # every handle is gone: whichever closed channel select! looks at, the driver must be able to finish.
            # Reaching Ready on some resolution of the race is checked as a reachability requirement (see finish_checks).
            return [('with all handles dropped the driver delivers nothing', nothing_delivered)]
        if ev_ == 'none':
            return [('with nothing ready the driver waits and changes nothing', z3.And(z3.BoolVal(poll.variant == 'Pending'), self.map_is(rm, rpairs), self.map_is(sm, spairs), nothing_delivered, self.inuse_is(o['zs'], d['arr'], [])))]
        if 'scrub2' in o['log']['consumed']:
            # the race went to the simultaneously ready scrub source: the other event must still be queued, nothing else touched
            rid = d['id2']
            exp_r = [(k, t) for k, t in rpairs]; exp_s = [(k, t) for k, t in spairs]
            return [('when the scrub wins the race the other ready event is left queued', z3.BoolVal(o['log']['consumed'] == ['scrub2'])), ('no response is delivered by a scrub', nothing_delivered)]
        if ev_ == 'resp':
            rid = d['id']; tag = d['optag']
            in_s = [rid == k for k in d['skeys']]; in_r = [rid == k for k in d['rkeys']]
            # which table the ID is in is decided by forking (keys are distinct by the invariant)
            hit_s = next((i for i, cnd in enumerate(in_s) if c.branch(cnd)), None)
            hit_r = None if hit_s is not None else next((i for i, cnd in enumerate(in_r) if c.branch(cnd)), None)
            if hit_s is not None:
                t = o['stoks'][hit_s]
                others = [x for x in o['rtoks'] + o['stoks'] if x is not t]
                known = c.branch(z3.Or(tag == 4, tag == 25, tag == 19, tag == 5))
                if not known:
                    return [('an unexpected operation for a search ID does not crash the driver', z3.BoolVal(out[0] != 'panic'))]
                fails = bool(d.get('send_fails'))
                done = c.branch(tag == 5)
                want_kind = 'Done' if done else ('Referral' if c.branch(tag == 19) else 'Entry')
                obs.append(('no other operation sees this response', z3.BoolVal(all(len(x.sent) == 0 for x in others))))
                if not fails:
                    ok = len(t.sent) == 1 and deref(t.sent[0][0]).variant == want_kind
                    obs.append(('the response goes to the search whose ID it carries, classified by its tag (4|25 entry, 19 reference, 5 done)', z3.BoolVal(ok)))
                    if ok and want_kind != 'Done':
                        obs.append(('entry delivered unchanged', eq_term(deref(t.sent[0][0]).fields[0], d['_protoop'])))
                removed = done or fails
                exp_s = [p for i, p in enumerate(spairs) if not (removed and i == hit_s)]
                obs.append(('search routing entry kept while the search runs, removed on Done / dead receiver; other entries untouched', z3.And(self.map_is(sm, exp_s), self.map_is(rm, rpairs))))
                if P in ('C13', 'C05'):
                    obs.append(('a finished search releases its message ID (and only that)' if removed else 'a running search keeps its ID reserved',
                                self.inuse_is(o['zs'], d['arr'], [rid] if removed else [])))
                return obs
            if hit_r is not None:
                t = o['rtoks'][hit_r]
                others = [x for x in o['rtoks'] + o['stoks'] if x is not t]
                ok = len(t.sent) == 1 or bool(d.get('result_rx_dropped'))
                obs.append(('the response goes to the operation whose ID it carries', z3.BoolVal(ok)))
                if ok and t.sent:
                    obs.append(('result delivered unchanged', eq_term(deref(t.sent[0][0]).fields[0], d['_protoop'])))
                obs.append(('no other operation sees this response', z3.BoolVal(all(len(x.sent) == 0 for x in others))))
                obs.append(('its routing entry is removed, others untouched', z3.And(self.map_is(rm, [p for i, p in enumerate(rpairs) if i != hit_r]), self.map_is(sm, spairs))))
                obs.append(('result delivery releases exactly that ID', self.inuse_is(o['zs'], d['arr'], [rid])))
                obs.append(('the connection keeps serving after delivering a result', z3.BoolVal(poll.variant == 'Pending')))
                return obs
            obs.append(('a response matching no outstanding operation is delivered to nobody', nothing_delivered))
            obs.append(('...and disturbs nothing', z3.And(self.map_is(rm, rpairs), self.map_is(sm, spairs), self.inuse_is(o['zs'], d['arr'], []))))
            obs.append(('...and the connection keeps serving (an unmatched, late or unsolicited response does not end the driver)', z3.BoolVal(poll.variant == 'Pending')))
            return obs
        if ev_ == 'scrub':
            rid = d['id']
            exp_r = [(k, t) for (k, t) in rpairs]; exp_s = [(k, t) for (k, t) in spairs]
            hit_r = next((i for i, k in enumerate(d['rkeys']) if c.branch(rid == k)), None)
            hit_s = None if hit_r is not None else next((i for i, k in enumerate(d['skeys']) if c.branch(rid == k)), None)
            if hit_r is not None: exp_r.pop(hit_r)
            if hit_s is not None: exp_s.pop(hit_s)
            obs.append(('a scrub removes exactly that ID from both routing tables', z3.And(self.map_is(rm, exp_r), self.map_is(sm, exp_s))))
            obs.append(('...and from the in-use set, so it becomes reusable; nothing else is released', self.inuse_is(o['zs'], d['arr'], [rid])))
            obs.append(('a scrub delivers nothing to anyone', nothing_delivered))
            obs.append(('the connection keeps serving', z3.BoolVal(poll.variant == 'Pending')))
            return obs
        if ev_ in ('scrub-closed',):
            return [('a closed scrub channel alone does not stop the driver while requests can still arrive', TRUE)]
        if ev_ in ('resp-eof', 'resp-err', 'op-closed', 'misc-closed'):
            obs.append(('the driver finishes (dropping every pending reply sender, which fails the waiting callers)', z3.BoolVal(ready)))
            if ev_ == 'resp-err':
                obs.append(('a receive/decode error is reported as an error', z3.BoolVal(ready and poll.fields[0].variant == 'Err')))
            obs.append(('nothing is delivered as data on the way out', nothing_delivered))
            return obs
        # request events
        oid = d['id']; sock_ok = d.get('sock_send_ok', True)
        sent = [s for s in o['log']['sock'] if s[0] == 'send']
        obs.append(('the request is written to the socket exactly once, under its own ID', z3.BoolVal(len(sent) == 1) if len(sent) != 1 else (deref(sent[0][1][0])[0] == oid)))
        if not sock_ok:
            obs.append(('a failed write ends the driver with an error (all pending work fails)', z3.BoolVal(ready and poll.fields[0].variant == 'Err')))
            obs.append(('nothing is delivered as data', z3.And(nothing_delivered, z3.BoolVal(len(o['newtx'].sent) == 0))))
            return obs
        if ev_ == 'op-single':
            obs.append(('the reply sender is filed under the request\'s own ID only', z3.And(self.map_is(rm, rpairs + [(oid, o['newtx'])]), self.map_is(sm, spairs))))
            obs.append(('a pending operation keeps its ID reserved', self.inuse_is(o['zs'], d['arr'], [])))
            obs.append(('no reply is fabricated', z3.BoolVal(len(o['newtx'].sent) == 0)))
        elif ev_ == 'op-search':
            obs.append(('the item channel is filed under the search\'s own ID only', z3.And(self.map_is(sm, spairs + [(oid, o['search_tx'])]), self.map_is(rm, rpairs))))
            obs.append(('a running search keeps its ID reserved', self.inuse_is(o['zs'], d['arr'], [])))
            obs.append(('start of the search is acknowledged to the caller', z3.BoolVal(len(o['newtx'].sent) == 1)))
        elif ev_ == 'op-abandon':
            ab = d['abid']
            exp_r = list(rpairs); exp_s = list(spairs)
            hit_r = next((i for i, k in enumerate(d['rkeys']) if c.branch(ab == k)), None)
            hit_s = None if hit_r is not None else next((i for i, k in enumerate(d['skeys']) if c.branch(ab == k)), None)
            if hit_r is not None: exp_r.pop(hit_r)
            if hit_s is not None: exp_s.pop(hit_s)
            obs.append(('Abandon drops the routing entry (and so the waiting caller) of the abandoned ID only', z3.And(self.map_is(rm, exp_r), self.map_is(sm, exp_s))))
            obs.append(('Abandon releases the abandoned ID and its own ID, nothing else', self.inuse_is(o['zs'], d['arr'], [oid, ab])))
            obs.append(('Abandon is acknowledged to its caller', z3.BoolVal(len(o['newtx'].sent) == 1)))
        elif ev_ == 'op-unbind':
            kinds = [s[0] for s in o['log']['sock']]
            obs.append(('Unbind: send, shut the socket down, close the sink, acknowledge', z3.BoolVal(kinds == ['send', 'shutdown', 'close'] and len(o['newtx'].sent) == 1)))
        return obs

    # ---------------------------------------------------------------- replay (by role, scripted peer)
    def case(self, cd):
        return {'cmd': 'async:script', 'api': 'async', 'steps': [], 'server': []}

    def replay_by_role(self, cd, obname, out, model):
        from .scenarios import scenario_for
        sc = scenario_for(self.in_summary(cd), obname, out)
        if sc is None:
            return False, None, None, self.case(cd), {'note': 'no native scenario for this counterexample class'}
        key, what, case, pred = sc
        nj = native([case])[0]
        if nj['outcome'] != 'ok':
            raise RuntimeError('replay binary failed: ' + json.dumps(nj)[:200])
        bad = pred(nj['value'])
        return bool(bad), key, (what + ' -- natively: ' + str(bad)[:300]) if bad else None, case, {'native': nj['value']}

    def summary(self, out, model=None):
        if out[0] == 'panic': return {'panic': out[1].msg}
        o = out[1]
        return {'poll': o['poll'].variant + (':' + o['poll'].fields[0].variant if o['poll'].fields else ''), 'delivered': {t.name: len(t.sent) for t in o['rtoks'] + o['stoks'] + [o['newtx']] if t.sent},
                'socket': [s[0] for s in o['log']['sock']], 'resultmap': len(o['conn'].fields['resultmap'].items), 'searchmap': len(o['conn'].fields['searchmap'].items)}

    def in_summary(self, d, model=None):
        e = (lambda t: ev(model, t)) if model is not None else conc
        s32 = lambda v: v - (1 << 32) if v is not None and v >> 31 else v
        out = {'event': d['event'], 'id': s32(e(d['id'])), 'result_ids': [s32(e(k)) for k in d['rkeys']], 'search_ids': [s32(e(k)) for k in d['skeys']]}
        if 'optag' in d: out['optag'] = e(d['optag'])
        if 'abid' in d: out['abandon'] = s32(e(d['abid']))
        for k in ('send_fails', 'sock_send_ok', 'also_scrub'):
            if k in d: out[k] = d[k]
        return out

    def regions(self, d, out):
        r = [d['event']]
        if d['event'] == 'all-closed' and out[0] == 'ret' and out[1]['poll'].variant == 'Ready':
            r.append('all-closed:finishes')
        return r

    def key(self, obname, out):
        return Lane.key(self, obname, out) + '@' + getattr(self, '_ev', '')

    def run(self):
        r = Lane.run(self); self._ev = r[0]['event']; return r


ASSUMPTIONS = {
    'all': ['lane B3: one iteration of the real LdapConnAsync::turn coroutine (incl. the expanded tokio::select!) is executed from MIR; every awaited foreign future (channel recv, Framed next/send/close, socket shutdown) is an environment stub answering Ready(value) or Pending',
            'inductive step from an arbitrary pre-state under the representation invariant "routing keys are pairwise distinct, positive and members of the in-use set"; a counterexample from an unreachable pre-state would mean the invariant is too weak',
            'cancellation (a future dropped at an await point), wakers and task scheduling are outside; per-operation ordering rests on the single consumer + FIFO channels of tokio (trusted)',
            'counterexamples are reproduced by role against a scripted in-process peer (harness/scenarios.py); a class without a scenario stays inconclusive'],
    'C01': ['byte-level segmentation is C06; ID allocation across cloned handles is C05'],
    'C04': ['safety half only: "the driver returns (dropping every reply sender) / reports an error / never fabricates data" at each point where a fault becomes visible to this code; that every waiting future is then actually woken (liveness) is tokio\'s contract and not decided here'],
    'C12': ['expiry logic only: that the timer fires at its deadline is tokio\'s timer wheel and not decided here'],
    'C13': ['one-step release facts for every release site; histories are compositions of these steps and of the client-side stream steps (harness/streams.py)'],
}


def finish_checks(chk, pid):
    """reachability requirement: with every handle dropped, SOME resolution of the select! race lets the driver finish"""
    if pid != 'C04':
        return
    name = [k for k in chk.cov['vacuity']]
    reached = None
    for l in chk.lanes:
        pass
    v = chk.cov['vacuity']
    key = next((k for k in v if k.endswith(':all-closed:finishes')), None)
    if key is not None and not v[key]:
        from .scenarios import scenario_for
        sc = scenario_for({'event': 'all-closed'}, 'driver finishes', ('ret', None))
        k2, what, case, pred = sc
        nj = native([case])[0]
        bad = pred(nj['value']) if nj['outcome'] == 'ok' else None
        # the missing region was recorded as inconclusive by run_lane: turn it into a finding if it reproduces
        chk.inconclusive = [m for m in chk.inconclusive if 'all-closed:finishes' not in m]
        chk.report(k2, what + (' -- natively: ' + bad if bad else ''), case, bool(bad), {'native': nj.get('value')})
