"""C12: see harness/driver.py (lane B3 on one iteration of the connection driver) and harness/streams.py."""
from .framework import *
from .lane import run_lane
from . import driver
try:
    from . import streams
except ImportError:
    streams = None

PID = 'C12'


def body(chk):
    quick = chk.tier == 'quick'
    nr, ns = (2, 1) if quick else (4, 3)
    need = {'C01': ('resp', 'op-single', 'op-search', 'none'), 'C04': ('resp-eof', 'resp-err', 'op-closed', 'op-unbind', 'op-single', 'misc-closed'), 'C12': ('scrub', 'resp'),
            'C13': ('scrub', 'resp', 'op-single', 'op-search', 'op-abandon', 'op-unbind')}[PID]
    run_lane(chk, driver.DriverStep, (PID, nr, ns), bounds={'pre-state': f'{nr} pending single-result operations + {ns} running search(es) with symbolic, pairwise distinct IDs; in-use set an arbitrary array containing them',
             'events': [e for e in driver.EVENTS if driver.DriverStep(None, PID, nr, ns).want_event(e)], 'select! start index': 'symbolic', 'socket answers': 'ok / error per call', 'response': 'any ID, any operation tag <= 30'},
             selftest=False, need_regions=need)
    if PID in ('C04', 'C01', 'C12'):
        # the idle connection: nothing pending, nothing running
        run_lane(chk, driver.DriverStep, (PID, 0, 0), bounds={'pre-state': 'no pending operation and no running search (idle connection)', 'events': 'as above', 'response': 'any ID (incl. 0 and negative), any operation tag <= 30'},
                 selftest=False, need_regions={'C04': ('resp-eof', 'resp-err', 'op-single'), 'C01': ('resp', 'none'), 'C12': ('resp',)}[PID])
    if streams is not None:
        streams.extra_lanes(chk, PID)
    if PID == 'C12':
        # a timeout (like controls and search options) armed for a search is consumed by it and cannot expire a later, untimed operation
        from .c02 import SearchModifiers
        run_lane(chk, SearchModifiers, (), bounds={'pending modifiers': 'every combination of controls / timeout (any u64 s) / search options', 'search': 'streaming_search_with without adapters'},
                 selftest=False, need_regions=('none', 'ctrls+timeout+opts'))
    chk.assumptions += driver.ASSUMPTIONS.get(PID, []) + driver.ASSUMPTIONS['all']


if __name__ == '__main__':
    run_check(PID, body)
