"""C18 Connection setup honours the URL and fails cleanly on bad input (lane B2, pre-connect part).
from_url_with_settings / new_tcp / new_unix run from the MIR of the default-feature (TLS) build up to
the first socket call; url::Url accessors and the pre-opened stream kind are nondeterministic stubs."""
import z3
from .framework import *
from .lane import Lane, run_lane
from . import ber
from mirsym.values import *
from mirsym.engine import TRUE, FALSE
from mirsym.models import eq_term, and_all, or_all, utf8_valid, percent_decode_bytes, FmtV
from mirsym.models_async import EnvFut, PENDING, poll_value

S = ber.bstr
HOST_EXCL = b' #/:<>?@[\\]^|'


def printable_except(b, excl):
    return z3.And(z3.UGE(b, 0x21), z3.ULE(b, 0x7e), *[b != x for x in excl])


class Setup(Lane):
    name = 'C18.connection_setup'
    SCHEMES = ['ldap', 'ldaps', 'ldapi', None]
    STREAMS = [None, 'Tcp', 'Unix', 'Invalid']

    def __init__(self, ctx, hlen):
        Lane.__init__(self, ctx, hlen); self.hlen = hlen

    def inputs(self):
        c = self.c
        sch = self.SCHEMES[c.choose(4, 'scheme')]
        if sch is None:
            sb = [z3.BitVec(f'sc{i}', 8) for i in range(4)]
            for b in sb: c.assume(z3.And(z3.UGE(b, 0x61), z3.ULE(b, 0x7a)))
            for known in (b'ldap',):
                c.assume(z3.Not(and_all([x == y for x, y in zip(sb, known)])))
            scheme = sb
        else:
            scheme = S(sch)
        hk = c.choose(3, 'hostkind')          # None | Some("") | Some(non-empty)
        host = None if hk == 0 else ([] if hk == 1 else [z3.BitVec(f'h{i}', 8) for i in range(1 + c.choose(self.hlen, 'hlen'))])
        if host:
            for b in host: c.assume(printable_except(b, HOST_EXCL))
        port = z3.BitVec('port', 16) if c.choose(2, 'hasport') else None
        return {'scheme': scheme, 'scheme_name': sch, 'host': host, 'port': port, 'stream': self.STREAMS[c.choose(4, 'stream')],
                'timeout': z3.BitVec('tmo', 64) if c.choose(2, 'hastmo') else None, 'starttls': z3.Bool('starttls')}

    def execute(self, d):
        c = self.c
        ev_ = {'connect': None, 'timeout_wraps': None, 'inside_timeout': False, 'from_std': None}
        ss = NONE() if d['stream'] is None else Some(EnumV('StdStream', d['stream'], [Opaque('std-stream')] if d['stream'] != 'Invalid' else []))
        tmo = Some(StructV('Duration', [('secs', d['timeout']), ('nanos', z3.BitVecVal(0, 32))])) if d['timeout'] is not None else NONE()
        settings = StructV('LdapConnSettings', [('conn_timeout', tmo), ('connector', NONE()), ('starttls', d['starttls']), ('no_tls_verify', FALSE), ('std_stream', ss)])
        url = Opaque('Url')

        class Stop(Exception):
            pass

        def connect(kind):
            def h(ctx, call, arg):
                ev_['connect'] = (kind, deref(arg), ev_['inside_timeout'])
                raise StopAtCall(kind, [arg])
            return h

        def from_std(kind):
            def h(ctx, call, arg):
                ev_['from_std'] = kind
                raise StopAtCall(kind + '::from_std', [arg])
            return h

        def timeout_env(ctx, f):
            inner = deref(f.fut)
            ev_['timeout_wraps'] = getattr(inner, 'body', type(inner).__name__)
            ev_['timeout_dur'] = f.dur
            ev_['inside_timeout'] = True
            r = poll_value(ctx, f.fut, Opaque('Context'))
            ev_['inside_timeout'] = False
            return PENDING if r.variant == 'Pending' else Ok(r.fields[0])

        c.intercept = {
            'Url::scheme': lambda ctx, call, u: StrV(list(d['scheme'])),
            'Url::host_str': lambda ctx, call, u: (Some(StrV(list(d['host']))) if d['host'] is not None else NONE()),
            'Url::port': lambda ctx, call, u: (Some(d['port']) if d['port'] is not None else NONE()),
            'TcpStream::connect': connect('tcp'), 'UnixStream::connect': connect('unix'),
            'TcpStream::from_std': from_std('tcp'), 'UnixStream::from_std': from_std('unix'),
            'TcpStream::set_nonblocking': lambda ctx, call, *a: Ok(UNIT), 'UnixStream::set_nonblocking': lambda ctx, call, *a: Ok(UNIT),
        }
        c.env = {'timeout': timeout_env}
        try:
            coro = c.run_fn('LdapConnAsync::from_url_with_settings', [settings, url])
            try:
                r = c.run_fn(coro.body, [Tup([coro]), Opaque('Context')])
                ev_['result'] = r
            except StopAtCall:
                ev_['result'] = 'reached-socket'
        finally:
            c.intercept = {}; c.env = {}
        return ev_

    def oracle(self, d, out):
        if out[0] == 'panic':
            return [('no URL or settings combination makes connection setup panic', FALSE)]
        o = out[1]; c = self.c; sch = d['scheme_name']
        res = o['result']
        is_err = isinstance(res, EnumV) and res.variant == 'Ready' and res.fields[0].variant == 'Err'
        errkind = deref(res.fields[0].fields[0]).variant if is_err and isinstance(deref(res.fields[0].fields[0]), EnumV) else None
        obs = []
        if sch is None:
            return [('an unknown scheme is an error', z3.BoolVal(is_err and errkind == 'UnknownScheme'))]
        if sch == 'ldapi':
            if d['stream'] in ('Tcp', 'Invalid'):
                return [('a pre-opened stream of the wrong type is refused', z3.BoolVal(is_err and errkind == 'MismatchedStreamType'))]
            if d['stream'] == 'Unix':
                return [('a pre-opened Unix stream is used for ldapi', z3.BoolVal(o['from_std'] == 'unix'))]
            if d['host'] is None or len(d['host']) == 0:
                return [('an empty ldapi path is an error', z3.BoolVal(is_err and errkind == 'EmptyUnixPath'))]
            if d['port'] is not None:
                return [('a port-bearing ldapi URL is an error', z3.BoolVal(is_err and errkind == 'PortInUnixPath'))]
            if o['connect'] is None or o['connect'][0] != 'unix':
                return [('ldapi connects to a Unix socket', FALSE)]
            want, _ = percent_decode_bytes(c, list(d['host']))
            if not c.branch(utf8_valid(want)):
                return []          # lossy decoding of a non-UTF-8 path: not specified by the property
            got = deref(o['connect'][1])
            inner = deref(got.fields[0]) if isinstance(got, EnumV) and got.ty == 'Cow' else got
            return [('the Unix socket path is the percent-decoded host', eq_term(SliceV(list(inner.b)), SliceV(want)))]
        # ldap / ldaps
        if d['stream'] in ('Unix', 'Invalid'):
            return [('a pre-opened stream of the wrong type is refused', z3.BoolVal(is_err and errkind == 'MismatchedStreamType'))]
        if d['stream'] == 'Tcp':
            obs.append(('a pre-opened TCP stream is used for ldap/ldaps', z3.BoolVal(o['from_std'] == 'tcp')))
        else:
            if o['connect'] is None or o['connect'][0] != 'tcp':
                return [('ldap/ldaps connect over TCP', FALSE)]
            tgt = o['connect'][1]
            if tgt is None:
                tgt_known = False      # native replay: the connect target is not observable, only whether/when setup returned
            default = 389 if sch == 'ldap' else 636
            wport = d['port'] if d['port'] is not None else z3.BitVecVal(default, 16)
            whost = list(d['host']) if d['host'] else S('localhost')
            items = tgt.parts.get('items') if isinstance(tgt, FmtV) else None
            if tgt is None:
                items = []
            elif items is None:
                raise Unsupported('connect target is not a decodable format!() result')
            # host:port  rendered as  [host] ":" [port]   or   "localhost:" [port]
            flat_host = []; port_term = None
            for kind, v in items:
                if kind == 'lit':
                    flat_host += [bv(x, 8) for x in v]
                elif isinstance(v, StrV):
                    flat_host += list(v.b)
                elif z3.is_bv(v):
                    port_term = v
            if tgt is not None:
                obs.append(('TCP target host is the URL host, or localhost when the host is missing', eq_term(SliceV(flat_host), SliceV(whost + S(':')))))
                obs.append(('TCP target port is the URL port, else 389 (ldap) / 636 (ldaps)', (port_term == wport) if port_term is not None else FALSE))
        if d['timeout'] is not None:
            tw = o['timeout_wraps'] or ''
            obs.append(('a connection timeout bounds the whole establishment (the new_tcp future, not just the socket connect)', z3.BoolVal('new_tcp' in str(tw))))
            if d['stream'] is None and o['connect'] is not None:
                obs.append(('the socket connect happens under the timeout', z3.BoolVal(bool(o['connect'][2]))))
        return obs

    def case(self, cd):
        sch = bytes(ints(cd['scheme'])).decode()
        host = None if cd['host'] is None else bytes(ints(cd['host'])).decode('latin1')
        url = sch + ':'
        if host is not None:
            url += '//' + host
            if cd['port'] is not None: url += ':' + str(conc(cd['port']))
        url += '/'
        stall = bool(sch in ('ldap', 'ldaps') and cd['stream'] is None and cd['timeout'] is not None)
        return {'cmd': 'async:connect', 'url': url, 'stream': cd['stream'], 'bind_unix': bool(sch == 'ldapi' and cd['stream'] is None and host), 'stall_listener': stall, 'timeout_ms': None if cd['timeout'] is None else 300, 'starttls': True if stall else bool(z3.is_true(cd['starttls'])),
                'want_host': host, 'want_port': None if cd['port'] is None else conc(cd['port'])}

    def replay_by_role(self, cd, obname, out, m):
        sch = cd['scheme_name']
        if 'TCP target port' in obname and sch in ('ldap', 'ldaps') and cd['stream'] is None and cd['port'] is not None:
            # the URL names an explicit port: a listener on a free port must see the connection arrive
            case = {'cmd': 'async:connect', 'url': '', 'target_listener': True, 'scheme': sch, 'timeout_ms': 600, 'starttls': False, 'stream': None}
            nj = native([case])[0]
            v = nj.get('value') or {}
            bad = None if v.get('accepted') else f'{sch}://127.0.0.1:<port>/ did not connect to the port named in the URL (result: {v.get("result")})'
            return bool(bad), 'tcp-target-port', (f'C18.connection_setup: {bad}' if bad else None), case, {'native': nj}
        return self.default_replay(cd, self.case(cd), out, m)

    def native_outcome(self, cd, j):
        if j['outcome'] == 'panic': return native_panic(j)
        v = j['value']
        if v.get('r') == 'stub-mismatch':
            raise RuntimeError('stub contract violated: url crate returns ' + json.dumps(v)[:200])
        ev_ = {'connect': None, 'timeout_wraps': 'new_tcp', 'from_std': v.get('from_std'), 'inside_timeout': True}
        if v['r'] == 'err' and v['kind'] not in ('Io', 'Timeout'):
            ev_['result'] = EnumV('Poll', 'Ready', [Err(EnumV('LdapError', v['kind'], []))])
        elif v['r'] == 'ok' or v['r'] == 'err':
            # the real code went on to the socket (connected, or the OS refused): no setup error was raised
            ev_['result'] = 'reached-socket'
            ev_['connect'] = ('unix' if cd['scheme_name'] == 'ldapi' else 'tcp', None, True)
        elif v['r'] == 'hang':
            # the peer accepted and stalled, a timeout was set, and establishment did not return: the timeout does not cover it
            ev_['result'] = 'reached-socket'; ev_['timeout_wraps'] = None
            ev_['connect'] = ('tcp', None, False)
        else:
            raise RuntimeError('unexpected native result')
        if v['r'] == 'err' and v['kind'] == 'Timeout':
            ev_['connect'] = ('tcp', None, True)
        return ('ret', ev_)

    def summary(self, out, model=None):
        if out[0] == 'panic': return {'panic': out[1].msg}
        o = out[1]; r = o.get('result')
        if isinstance(r, EnumV) and r.variant == 'Ready' and r.fields[0].variant == 'Err':
            e = deref(r.fields[0].fields[0])
            return {'err': e.variant if isinstance(e, EnumV) else str(e)}
        return {'reached': o.get('connect') and o['connect'][0], 'from_std': o.get('from_std'), 'timeout_wraps': str(o.get('timeout_wraps'))[-40:]}

    def in_summary(self, d, model=None):
        e = (lambda t: ev(model, t)) if model is not None else conc
        return {'scheme': bytes(e(b) for b in d['scheme']).decode('latin1'), 'host': None if d['host'] is None else bytes(e(b) for b in d['host']).decode('latin1'),
                'port': None if d['port'] is None else e(d['port']), 'stream': d['stream'], 'timeout': d['timeout'] is not None}

    def regions(self, d, out):
        return [str(d['scheme_name']) + ('/' + (d['stream'] or 'none'))]

    def key(self, obname, out):
        return Lane.key(self, obname, out)



class EntryPoints(Lane):
    """the string / default-settings entry points: LdapConnAsync::{new, with_settings, from_url} and
    LdapConn::{new, with_settings, from_url}.  Url::parse is a stub answering Ok(url) or Err(parse error);
    from_url_with_settings is an intercepted, uninterpreted callee."""
    name = 'C18.entry_points'
    FNS = ['LdapConnAsync::with_settings', 'LdapConnAsync::new', 'LdapConnAsync::from_url', 'LdapConn::with_settings', 'LdapConn::new', 'LdapConn::from_url']

    def inputs(self):
        c = self.c
        return {'fn': self.FNS[c.choose(len(self.FNS), 'fn')], 'parse_ok': bool(c.choose(2, 'parse_ok')), 'callee_ok': bool(c.choose(2, 'callee_ok')),
                'tmo': z3.BitVec('tmo', 64), 'starttls': z3.Bool('starttls'), 'noverify': z3.Bool('noverify')}

    def execute(self, d):
        c = self.c
        calls = []; parsed = Opaque('Url', 'parsed'); given = Opaque('Url', 'given')
        settings = StructV('LdapConnSettings', [('conn_timeout', Some(StructV('Duration', [('secs', d['tmo']), ('nanos', z3.BitVecVal(0, 32))]))), ('connector', NONE()), ('starttls', d['starttls']),
                                                ('no_tls_verify', d['noverify']), ('std_stream', NONE())])
        sync = d['fn'].startswith('LdapConn::')
        target = 'LdapConn::from_url_with_settings' if sync else 'LdapConnAsync::from_url_with_settings'
        token = Ok(Opaque('connected')) if d['callee_ok'] else Err(EnumV('LdapError', 'EmptyUnixPath'))

        def callee(ctx, call, st, u):
            calls.append((deref(st), deref(u)))
            if sync: return token
            return EnvFut('uninterpreted', value=token)
        c.intercept = {
            'Url::parse': lambda ctx, call, s_: (Ok(parsed) if d['parse_ok'] else Err(EnumV('ParseError', 'EmptyHost'))),
            'from_url_with_settings': callee, target: callee,
        }
        c.env = {'uninterpreted': lambda ctx, f: f.value}
        try:
            leaf = d['fn'].split('::')[1]
            args = {'with_settings': [settings, StrV(S('ldap://h'))], 'new': [StrV(S('ldap://h'))], 'from_url': [given]}[leaf]
            r = c.run_fn(d['fn'], args)
            if not sync:
                r = c.run_fn(r.body, [Tup([r]), Opaque('Context')])
                r = r.fields[0] if r.variant == 'Ready' else 'pending'
        finally:
            c.intercept = {}; c.env = {}
        return {'r': r, 'calls': calls, 'settings': settings, 'parsed': parsed, 'given': given, 'token': token}

    def oracle(self, d, out):
        if out[0] == 'panic': return [('no URL or settings combination makes connection setup panic', FALSE)]
        o = out[1]; leaf = d['fn'].split('::')[1]; r = o['r']
        if leaf != 'from_url' and not d['parse_ok']:
            ek = deref(r.fields[0]).variant if isinstance(r, EnumV) and r.variant == 'Err' and isinstance(deref(r.fields[0]), EnumV) else None
            return [('an unparsable URL is an error (UrlParsing) and nothing is attempted', z3.BoolVal(ek == 'UrlParsing' and not o['calls']))]
        obs = [('exactly one connection attempt is made', z3.BoolVal(len(o['calls']) == 1))]
        if len(o['calls']) != 1: return obs
        st, u = o['calls'][0]
        obs.append(('...to the URL that was given / parsed', z3.BoolVal(u is (o['given'] if leaf == 'from_url' else o['parsed']))))
        if leaf == 'with_settings':
            obs.append(('...with exactly the caller\'s settings', eq_term(st, o['settings'])))
        else:
            dflt = self.c.run_fn('LdapConnSettings::new', [])
            obs.append(('...with default settings (no timeout, no StartTLS, verification on, no pre-opened stream)', and_all([eq_term(st, dflt), z3.BoolVal(st.fields['conn_timeout'].variant == 'None' and st.fields['std_stream'].variant == 'None'),
                                                                                                                   z3.Not(st.fields['starttls']) if z3.is_expr(st.fields['starttls']) else z3.BoolVal(not st.fields['starttls']),
                                                                                                                   z3.Not(st.fields['no_tls_verify']) if z3.is_expr(st.fields['no_tls_verify']) else z3.BoolVal(not st.fields['no_tls_verify'])])))
        obs.append(('the outcome of the attempt is returned unchanged', z3.BoolVal(r is o['token'] or (isinstance(r, EnumV) and r.variant == o['token'].variant and deref(r.fields[0]) is deref(o['token'].fields[0])))))
        return obs

    def replay_by_role(self, cd, obname, out, m):
        # natively: the entry point against a listening Unix socket / an unparsable URL
        case = {'cmd': 'async:entry', 'fn': cd['fn'], 'parse_ok': cd['parse_ok']}
        nj = native([case])[0]
        v = nj.get('value') or {}
        bad = v.get('bad')
        return bool(bad), 'entry:' + cd['fn'], (f'{cd["fn"]}: {bad}' if bad else None), case, {'native': nj}

    def case(self, cd): return {'cmd': 'async:entry', 'fn': cd['fn'], 'parse_ok': cd['parse_ok']}

    def summary(self, out, model=None):
        if out[0] == 'panic': return {'panic': out[1].msg}
        o = out[1]; r = o['r']
        return {'result': r.variant if isinstance(r, EnumV) else str(r), 'attempts': len(o['calls'])}

    def in_summary(self, d, model=None):
        return {'fn': d['fn'], 'parse_ok': d['parse_ok'], 'callee_ok': d['callee_ok']}

    def regions(self, d, out):
        return [d['fn']]

def body(chk):
    quick = chk.tier == 'quick'
    hl = 3 if quick else 6
    run_lane(chk, Setup, (hl,), bounds={'scheme': 'ldap | ldaps | ldapi | any other 4 lowercase letters', 'host': f'None | "" | 1..{hl} symbolic host characters (incl. percent sequences)', 'port': 'None | any u16',
                                         'pre-opened stream': 'None | Tcp | Unix | Invalid', 'timeout': 'None | any', 'StartTLS': 'symbolic'},
             selftest=False, variant='tls', need_regions=('ldap/none', 'ldaps/none', 'ldapi/none', 'ldap/Tcp', 'ldapi/Unix', 'None/none'))
    run_lane(chk, EntryPoints, (), bounds={'entry points': EntryPoints.FNS, 'Url::parse': 'stub: Ok(url) | Err(parse error)', 'from_url_with_settings': 'uninterpreted callee: Ok | Err', 'settings': 'symbolic timeout / StartTLS / verification flags'},
             selftest=False, variant='tls', need_regions=tuple(EntryPoints.FNS))
    chk.assumptions += [
        'pre-connect part only: everything from the first socket call on (TCP/Unix connect, StartTLS exchange, TLS handshake) is outside; "unreachable endpoints return an error" is the OS\'s answer passed through by `?`',
        'url::Url::{scheme, host_str, port} are nondeterministic stubs: host characters are those an opaque host of a non-special URL can contain (no ":" - the url crate splits the port off)',
        'the MIR executed is that of the default-feature (TLS) build',
        'a non-UTF-8 percent-decoded socket path is decoded lossily by the library; not specified, not checked',
    ]


if __name__ == '__main__':
    run_check('C18', body)
