"""C10 Search streams deliver the server's items in order and obey the state machine (lane B3, client side)."""
from .framework import *
from . import streams


def body(chk):
    streams.extra_lanes(chk, 'C10')
    chk.assumptions += [
        'lane B3: SearchStream::{next,finish,state}, next_inner/finish_inner, the EntriesOnly adapter (through the async_trait vtable, resolved on the runtime type) and Ldap::search() are executed from their coroutine MIR; the item channel is a scripted queue (concrete length, symbolic contents); tokio::sync::Mutex around adapters is always available (single caller)',
        'item scripts and call words are bounded as stated; PagedResults is C16; per-item timeouts are C12',
        'counterexamples are reproduced with the same item script and call sequence against a scripted in-process peer',
    ]


if __name__ == '__main__':
    run_check('C10', body)
