"""C08 Filter strings compile to the RFC 4511 filter they denote.
(b) raw lane: every byte string of <= n bytes through the real nom grammar (filter::parse, from MIR)
    against a forking reference RFC 4515 parser/compiler written here;
(a) grammar lane: symbolic filter ASTs printed with a symbolic escaping choice per value byte."""
import z3
from .framework import *
from .lane import Lane, run_lane
from . import ber
from mirsym.values import *
from mirsym.engine import TRUE, FALSE, clone_val
from mirsym.models import eq_term, and_all, or_all

CTX = 2


class Reject(Exception):
    pass


def rng(ch, a, b): return z3.And(z3.UGE(ch, a), z3.ULE(ch, b))
def is_alpha(ch): return z3.Or(rng(ch, 0x41, 0x5a), rng(ch, 0x61, 0x7a))
def is_digit(ch): return rng(ch, 0x30, 0x39)
def is_keychar(ch): return z3.Or(is_alpha(ch), is_digit(ch), ch == 0x2d)
def is_hex(ch): return z3.Or(is_digit(ch), rng(ch, 0x41, 0x46), rng(ch, 0x61, 0x66))
def hexval(ch): return z3.If(z3.ULE(ch, 0x39), ch - 0x30, (ch & 0x0f) + 9)


class RefParser:
    """forking recursive-descent parser for RFC 4515 (+ bare item, empty (&) (|)); builds the RFC 4511
    Filter as a StructureTag tree.  `liberal` notes use of a dot-less numeric OID (accepted by the
    library, not by the RFC's numericoid)."""

    def __init__(self, c, buf):
        self.c = c; self.b = buf; self.p = 0; self.n = len(buf); self.liberal = False

    def at_end(self): return self.p >= self.n

    def peek_is(self, ch):
        if self.p >= self.n: return False
        return self.c.branch(self.b[self.p] == ch)

    def peek_is_at(self, off, ch):
        if self.p + off >= self.n: return False
        return self.c.branch(self.b[self.p + off] == ch)

    def peek_class(self, f):
        if self.p >= self.n: return False
        return self.c.branch(f(self.b[self.p]))

    def expect(self, ch):
        if not self.peek_is(ch): raise Reject()
        self.p += 1

    def top(self):
        t = self.filter() if self.peek_is(0x28) else self.item()
        if not self.at_end(): raise Reject()
        return t

    def filter(self):
        self.expect(0x28)
        if self.peek_is(0x26):
            self.p += 1; t = ber.cons(CTX, 0, self.filterlist())
        elif self.peek_is(0x7c):
            self.p += 1; t = ber.cons(CTX, 1, self.filterlist())
        elif self.peek_is(0x21):
            self.p += 1; t = ber.cons(CTX, 2, [self.filter()])
        else:
            t = self.item()
        self.expect(0x29)
        return t

    def filterlist(self):
        out = []
        while self.peek_is(0x28):
            out.append(self.filter())
        return out

    def number(self):
        s = self.p
        if not self.peek_class(is_digit): raise Reject()
        first = self.b[self.p]; self.p += 1
        while self.peek_class(is_digit): self.p += 1
        if self.p - s > 1 and self.c.branch(first == 0x30): raise Reject()

    def attributetype(self):
        s = self.p
        if self.peek_class(is_digit):
            self.number(); dots = 0
            while self.peek_is(0x2e):
                self.p += 1; self.number(); dots += 1
            if dots == 0: self.liberal = True
        elif self.peek_class(is_alpha):
            self.p += 1
            while self.peek_class(is_keychar): self.p += 1
        else:
            raise Reject()
        return self.b[s:self.p]

    def attr(self):
        s = self.p
        self.attributetype()
        while self.peek_is(0x3b):
            self.p += 1
            if not self.peek_class(is_keychar): raise Reject()
            while self.peek_class(is_keychar): self.p += 1
        return self.b[s:self.p]

    def value(self):
        out = []
        while self.p < self.n:
            b = self.b[self.p]
            if self.c.branch(z3.Or(b == 0, b == 0x28, b == 0x29, b == 0x2a)): break
            if self.c.branch(b == 0x5c):
                if self.p + 2 >= self.n:
                    raise Reject()
                h, l = self.b[self.p + 1], self.b[self.p + 2]
                if not self.c.branch(is_hex(h)): raise Reject()
                if not self.c.branch(is_hex(l)): raise Reject()
                out.append(z3.simplify((hexval(h) << 4) + hexval(l))); self.p += 3
            else:
                out.append(b); self.p += 1
        return out

    def item(self):
        has_attr = not self.peek_is(0x3a)
        attr = self.attr() if has_attr else None
        if has_attr and self.peek_is(0x3d):
            self.p += 1
            initial = self.value(); parts = []
            while self.peek_is(0x2a):
                self.p += 1; parts.append(self.value())
            if not parts:
                return ber.cons(CTX, 3, [ber.prim(0, 4, attr), ber.prim(0, 4, initial)])
            if any(len(x) == 0 for x in parts[:-1]): raise Reject()
            if not initial and len(parts) == 1 and not parts[0]:
                return ber.prim(CTX, 7, attr)
            subs = []
            if initial: subs.append(ber.prim(CTX, 0, initial))
            for i, x in enumerate(parts):
                if not x: break
                subs.append(ber.prim(CTX, 1 if i + 1 != len(parts) else 2, x))
            return ber.cons(CTX, 4, [ber.prim(0, 4, attr), ber.cons(0, 16, subs)])
        if has_attr and self.p + 1 < self.n:
            for ch, idn in ((0x3e, 5), (0x3c, 6), (0x7e, 8)):
                if self.peek_is(ch):
                    if not self.peek_is_at(1, 0x3d): raise Reject()
                    self.p += 2
                    return ber.cons(CTX, idn, [ber.prim(0, 4, attr), ber.prim(0, 4, self.value())])
        # extensible
        if not self.peek_is(0x3a): raise Reject()
        dn = False
        if self.peek_is_at(1, 0x64) and self.peek_is_at(2, 0x6e) and self.peek_is_at(3, 0x3a):
            dn = True; self.p += 3
        rule = None
        if self.peek_is(0x3a) and not self.peek_is_at(1, 0x3d):
            self.p += 1; rule = self.attributetype()
        if not has_attr and rule is None: raise Reject()
        self.expect(0x3a); self.expect(0x3d)
        val = self.value()
        parts = []
        if rule is not None: parts.append(ber.prim(CTX, 1, rule))
        if attr is not None: parts.append(ber.prim(CTX, 2, attr))
        parts.append(ber.prim(CTX, 3, val))
        if dn: parts.append(ber.prim(CTX, 4, [bv(0xFF, 8)]))
        return ber.cons(CTX, 9, parts)


def run_filter(c, buf):
    r = c.run_fn('filter::parse', [SliceV(list(buf))])
    if r.variant != 'Ok':
        return None
    return c.run_fn('<Tag as ASNTag>::into_structure', [r.fields[0]])


class FilterLane(Lane):
    def case(self, cinp):
        return {'cmd': 'filter', 'bytes': ints(cinp['buf'])}

    def native_outcome(self, cinp, j):
        if j['outcome'] == 'panic': return native_panic(j)
        v = j['value']
        if v['r'] != 'ok': return ('ret', None)
        t, _ = ber.py_decode(v['ber'])
        return ('ret', tree_val(t))

    def summary(self, out, model=None):
        if out[0] == 'panic': return {'panic': out[1].msg}
        return 'rejected' if out[1] is None else {'filter': tree_json(out[1], model)}

    def in_summary(self, inp, model=None):
        bs = [ev(model, b) if model is not None else conc(b) for b in inp['buf']]
        return {'bytes': bs, 'text': bytes(bs).decode('latin1')}

    def execute(self, inp):
        return run_filter(self.c, inp['buf'])


class Raw(FilterLane):
    name = 'C08.raw_strings'

    def __init__(self, ctx, n):
        Lane.__init__(self, ctx, n); self.n = n

    def inputs(self):
        return {'buf': [z3.BitVec(f'b{i}', 8) for i in range(self.n)]}

    def oracle(self, inp, out):
        if out[0] == 'panic':
            return [('malformed or well-formed, a filter string never panics', FALSE)]
        rp = RefParser(self.c, list(inp['buf']))
        try:
            ref = rp.top()
        except Reject:
            ref = None
        got = out[1]
        self._class = ('accepted' if got is not None else 'rejected') + '/' + ('ref-accepts' if ref is not None else 'ref-rejects')
        if got is not None and ref is None:
            return [('an accepted string is in the grammar (means what it says)', FALSE)]
        if got is None and ref is not None:
            if rp.liberal:
                return []
            return [('every string of the RFC 4515 grammar (+ documented extensions) is accepted', FALSE)]
        if got is None:
            return []
        return [('the BER filter is the encoding of the syntax tree the string denotes', eq_term(got, ref))]

    def regions(self, inp, out):
        return [getattr(self, '_class', '?')]

    def key(self, obname, out):
        return Lane.key(self, obname, out)

    def concrete_vectors(self, rng):
        vs = ['a=v', '(a=v)', '(a=v)garbage', '(a<=2)', '(a=*)', '(a=*v)', '(a=v*)', '(a=v*x*y)', '(a=f**)', '(a=v\\2ax)', '(a=v\\2)', '(a=v\\0x)', '(2.5.4.3=v)', '(2.5.04.0=top)',
              '(&(a=v)(b=x)(!(c=y)))', '(&)', '(|)', '(ou:dn:=People)', '(cn:2.5.13.5:=J D)', '(a=ć)', '(:dn:2.4.6.8.10:=x)', '(cn;lang-de;x=y)', '(a~=b)', '(a:=b)', '(:=b)', '(a:dnx:=v)', '((a=b))', '(a=b', 'a=b)', '(2=x)']
        return [{'buf': bvs(s.encode())} for s in vs]


# ---------------------------------------------------------------------------- grammar lane

def hexchar(nib, upper):
    return z3.If(z3.ULT(nib, 10), nib + 0x30, z3.If(upper, nib + 0x37, nib + 0x57))


class Grammar(FilterLane):
    """symbolic ASTs -> RFC 4515 text with a symbolic escaping choice per value byte -> parse -> the
    reference RFC 4511 encoding of the AST"""
    name = 'C08.grammar'
    SHAPES = ['eq', 'ge', 'le', 'approx', 'present', 'sub_i', 'sub_a', 'sub_f', 'sub_iaf', 'sub_aa', 'ext_attr', 'ext_attr_dn', 'ext_attr_rule', 'ext_attr_dn_rule', 'ext_rule', 'ext_dn_rule',
              'bare_eq', 'and0', 'or0', 'and2', 'or1', 'not', 'nest']

    def __init__(self, ctx, vlen, nlen, shapes=None):
        Lane.__init__(self, ctx, vlen, nlen, shapes); self.vlen = vlen; self.nlen = nlen; self.k = 0; self.simple = False
        self.shapes = list(shapes or self.SHAPES)

    def fresh(self, p, bits=8):
        self.k += 1; return z3.BitVec(f'{p}{self.k}', bits)

    def name_(self):
        """attribute description: descr of nlen chars, or numeric oid d.d, optionally ;option"""
        c = self.c
        kind = 0 if self.simple else c.choose(3, 'namekind')
        if kind == 0:
            bs = [self.fresh('n') for _ in range(self.nlen)]
            c.assume(is_alpha(bs[0]))
            for b in bs[1:]: c.assume(is_keychar(b))
            return bs
        if kind == 1:
            d1, d2 = self.fresh('d'), self.fresh('d')
            c.assume(is_digit(d1)); c.assume(is_digit(d2))
            return [d1, bv(0x2e, 8), d2]
        a, o = self.fresh('n'), self.fresh('o')
        c.assume(is_alpha(a)); c.assume(is_keychar(o))
        return [a, bv(0x3b, 8), o]

    def rule_(self):
        c = self.c
        bs = [self.fresh('r') for _ in range(3)]
        c.assume(is_alpha(bs[0])); c.assume(is_keychar(bs[1])); c.assume(is_keychar(bs[2]))
        return bs

    def value_(self, n, nonempty=False):
        """-> (value bytes, printed text)"""
        c = self.c
        vals = []; text = []
        for _ in range(n):
            v = self.fresh('v')
            special = z3.Or(v == 0, v == 0x28, v == 0x29, v == 0x2a, v == 0x5c)
            if self.simple or c.choose(2, 'esc') == 0:
                c.assume(z3.Not(special)); text.append(v)
            else:
                up1, up2 = z3.Bool(f'u{self.k}a'), z3.Bool(f'u{self.k}b')
                text += [bv(0x5c, 8), hexchar(z3.LShR(v, 4), up1), hexchar(v & 0x0f, up2)]
            vals.append(v)
        return vals, text

    def leaf(self, kind, simple=False):
        self.simple = simple
        try:
            return self.leaf_(kind)
        finally:
            self.simple = False

    def leaf_(self, kind):
        c = self.c; S = ber.bstr
        if kind in ('eq', 'ge', 'le', 'approx', 'bare_eq'):
            a = self.name_(); v, t = self.value_(1 if self.simple else c.choose(self.vlen + 1, 'vl'))
            op = {'eq': '=', 'bare_eq': '=', 'ge': '>=', 'le': '<=', 'approx': '~='}[kind]
            idn = {'eq': 3, 'bare_eq': 3, 'ge': 5, 'le': 6, 'approx': 8}[kind]
            return a + S(op) + t, ber.cons(CTX, idn, [ber.prim(0, 4, a), ber.prim(0, 4, v)])
        if kind == 'present':
            a = self.name_(); return a + S('=*'), ber.prim(CTX, 7, a)
        if kind.startswith('sub_'):
            a = self.name_(); pat = kind[4:]; text = a + S('='); subs = []
            n = len(pat)
            for i, ch in enumerate(pat):
                v, t = self.value_(1 if self.simple else 1 + c.choose(max(1, self.vlen - 1), 'sl'))
                if ch == 'i':
                    text += t; subs.append(ber.prim(CTX, 0, v))
                elif ch == 'a':
                    text += S('*') + t; subs.append(ber.prim(CTX, 1, v))
                else:
                    text += S('*') + t; subs.append(ber.prim(CTX, 2, v))
            if pat[-1] != 'f': text += S('*')
            return text, ber.cons(CTX, 4, [ber.prim(0, 4, a), ber.cons(0, 16, subs)])
        if kind.startswith('ext_'):
            parts = kind.split('_')[1:]
            a = self.name_() if 'attr' in parts else None
            r = self.rule_() if 'rule' in parts else None
            v, t = self.value_(1 if self.simple else c.choose(self.vlen + 1, 'vl'))
            text = (a or []) + (S(':dn') if 'dn' in parts else []) + ((S(':') + r) if r else []) + S(':=') + t
            tp = []
            if r: tp.append(ber.prim(CTX, 1, r))
            if a: tp.append(ber.prim(CTX, 2, a))
            tp.append(ber.prim(CTX, 3, v))
            if 'dn' in parts: tp.append(ber.prim(CTX, 4, [bv(0xFF, 8)]))
            return text, ber.cons(CTX, 9, tp)
        raise AssertionError(kind)

    def paren(self, x):
        return ber.bstr('(') + x[0] + ber.bstr(')'), x[1]

    def inputs(self):
        c = self.c; self.k = 0; S = ber.bstr
        kind = self.shapes[c.choose(len(self.shapes), 'shape')]
        leafs = ['eq', 'present', 'sub_iaf', 'ext_attr_dn_rule', 'ge']
        if kind == 'bare_eq':
            text, tree = self.leaf(kind)
        elif kind == 'and0': text, tree = S('(&)'), ber.cons(CTX, 0, [])
        elif kind == 'or0': text, tree = S('(|)'), ber.cons(CTX, 1, [])
        elif kind == 'and2':
            x = self.paren(self.leaf(leafs[c.choose(len(leafs), 'k1')], True)); y = self.paren(self.leaf(leafs[c.choose(len(leafs), 'k2')], True))
            text, tree = S('(&') + x[0] + y[0] + S(')'), ber.cons(CTX, 0, [x[1], y[1]])
        elif kind == 'or1':
            x = self.paren(self.leaf(leafs[c.choose(len(leafs), 'k1')], True))
            text, tree = S('(|') + x[0] + S(')'), ber.cons(CTX, 1, [x[1]])
        elif kind == 'not':
            x = self.paren(self.leaf(leafs[c.choose(len(leafs), 'k1')], True))
            text, tree = S('(!') + x[0] + S(')'), ber.cons(CTX, 2, [x[1]])
        elif kind == 'nest':
            x = self.paren(self.leaf(leafs[c.choose(len(leafs), 'k1')], True)); y = self.paren(self.leaf('eq', True))
            inner = (S('(|') + y[0] + S('(&))'), ber.cons(CTX, 1, [y[1], ber.cons(CTX, 0, [])]))
            neg = (S('(!') + inner[0] + S(')'), ber.cons(CTX, 2, [inner[1]]))
            text, tree = S('(&') + x[0] + neg[0] + S(')'), ber.cons(CTX, 0, [x[1], neg[1]])
        else:
            text, tree = self.paren(self.leaf(kind))
        return {'buf': [z3.simplify(b) if z3.is_expr(b) else b for b in text], 'tree': tree, 'shape': kind}

    def oracle(self, inp, out):
        if out[0] == 'panic':
            return [('no panic', FALSE)]
        if out[1] is None:
            return [('every string of the RFC 4515 grammar is accepted', FALSE)]
        return [('the BER filter is the encoding of the syntax tree', eq_term(out[1], inp['tree']))]

    def regions(self, inp, out):
        return [inp['shape']]

    def key(self, obname, out):
        return Lane.key(self, obname, out) + ':' + getattr(self, '_shape', '')

    def run(self):
        r = Lane.run(self); self._shape = r[0].get('shape', ''); return r


def body(chk):
    quick = chk.tier == 'quick'
    for n in ((1, 2, 3, 4, 5) if quick else (1, 2, 3, 4, 5, 6, 7)):
        run_lane(chk, Raw, (n,), bounds={'string bytes': n, 'alphabet': 'all 256 byte values'}, selftest=(n == 5),
                 need_regions=(('accepted/ref-accepts', 'rejected/ref-rejects') if n >= 3 else ()))
    p = (2, 2) if quick else tier_param('C08G', (2, 3))
    run_lane(chk, Grammar, p, bounds={'value bytes': f'<= {p[0]} per value, each raw or \\hh (hex case symbolic)', 'attribute description': f'descr of {p[1]} chars | d.d | a;o', 'shapes': Grammar.SHAPES},
             selftest=False, need_regions=tuple(Grammar.SHAPES))
    if not quick:
        simple = ['eq', 'ge', 'le', 'approx', 'bare_eq', 'ext_attr', 'ext_rule', 'not']
        p3 = tier_param('C08L', (4, 2))
        run_lane(chk, Grammar, (p3[0], p3[1], simple), bounds={'value bytes': f'<= {p3[0]} per value, each raw or \\hh (hex case symbolic)', 'attribute description': f'descr of {p3[1]} chars | d.d | a;o', 'shapes': simple},
                 selftest=False, need_regions=tuple(simple))
    chk.assumptions += [
        'reference grammar: RFC 4515 + bare item + empty (&)/(|); a dot-less numeric OID is tolerated (library accepts, RFC does not) and not required',
        'a matching rule literally named "dn" is read as the :dn flag (ambiguity of the RFC grammar, documented behaviour)',
        'raw lane treats bytes >= 0x80 as value characters (parse() takes bytes; UTF-8 well-formedness is the caller\'s &str)',
        'nom combinator glue is modelled (transcribed from nom 7.1.3) and validated by the concrete differential self-test; the grammar itself runs from MIR',
    ]


if __name__ == '__main__':
    run_check('C08', body)
