"""C01: see harness/driver.py (lane B3 on one iteration of the connection driver) and harness/streams.py."""
from .framework import *
from .lane import run_lane
from . import driver
try:
    from . import streams
except ImportError:
    streams = None

PID = 'C01'


from .lane import Lane
import z3
from mirsym.values import *
from mirsym.engine import TRUE, FALSE
from mirsym.models_async import PENDING
from . import ber


class ReplyRouting(Lane):
    """client side of routing: two operations issued one after the other on the SAME handle (built by the real
    constructor verif_hooks::ldap_with_queue).  The first one gives up (its timer expires) before the server
    answers; then the server answers both, in order.  The environment plays driver and server: a reply for ID i is
    handed to whatever reply sender the request with ID i carried; a receiver that is gone swallows it.  The second
    operation must return the reply sent under ITS OWN message ID."""
    name = 'C01.reply_routing'

    def inputs(self):
        return {'rc1': z3.BitVec('rc1', 8), 'rc2': z3.BitVec('rc2', 8), 'second_timed': bool(self.c.choose(2, 'second_timed'))}

    def execute(self, d):
        from .streams import poll
        c = self.c
        c.assume(d['rc1'] != d['rc2'])
        pair = c.run_fn('ldap_with_queue', [z3.BitVecVal(7, 32), SetV()])
        ld = deref(pair[0])
        registry = {}; order = []
        reply = lambda rc: Tup([EnumV('Tag', 'StructureTag', [ber.cons(1, 11, [ber.prim(0, 10, [rc]), ber.prim(0, 4, []), ber.prim(0, 4, [])])]), VecV([])])
        inbox = []          # replies the server has sent, in order: (id, value)
        phase = {'n': 1}

        def send_env(ctx, t, val):
            t.sent.append(val)
            if t.name == deref(ld.fields['tx']).name:
                v = deref(val); mid = conc(v[0]); registry[mid] = deref(v[4]); order.append(mid)
            return Ok(UNIT)

        def deliver(rx, oneshot):
            # the driver routes by ID: each reply goes to the sender filed under its ID; this receiver sees only what is its own
            while inbox:
                mid, val = inbox[0]
                tx = registry.get(mid)
                if tx is not None and (tx.peer is rx or tx is getattr(rx, 'peer', None)):
                    inbox.pop(0)
                    return Ok(val) if oneshot else Some(val)
                if tx is not None and getattr(tx.peer, 'dropped', False) or phase['n'] == 2 and mid != order[-1] and tx is not None and tx.peer is not rx:
                    inbox.pop(0); continue           # receiver gone: the driver logs and drops the reply
                break
            return PENDING

        def timeout_env(ctx, f):
            if phase['n'] == 1: return Err(Opaque('Elapsed'))           # the first operation gives up
            from mirsym.models_async import poll_value
            r = poll_value(ctx, f.fut, Opaque('Context'))
            return PENDING if r.variant == 'Pending' else Ok(r.fields[0])
        c.env = {'send': send_env, 'timeout': timeout_env, 'closed': lambda ctx, f: PENDING,
                 'recv_oneshot': lambda ctx, f: deliver(f.rx, True), 'recv': lambda ctx, f: deliver(f.rx, False)}
        tag = lambda: EnumV('Tag', 'StructureTag', [ber.prim(1, 10, ber.bstr('dc=x'))])
        try:
            ld.fields['timeout'] = Some(StructV('Duration', [('secs', z3.BitVecVal(1, 64)), ('nanos', z3.BitVecVal(0, 32))]))
            r1 = poll(c, c.run_fn('Ldap::op_call', [ld, EnumV('LdapOp', 'Single'), tag()]))
            # the caller of operation 1 is gone; now the server answers it, late - and operation 2 is issued
            phase['n'] = 2
            if d['second_timed']:
                ld.fields['timeout'] = Some(StructV('Duration', [('secs', z3.BitVecVal(9, 64)), ('nanos', z3.BitVecVal(0, 32))]))
            co2 = c.run_fn('Ldap::op_call', [ld, EnumV('LdapOp', 'Single'), tag()])
            r2 = poll(c, co2)
            if len(order) == 2:
                inbox.extend([(order[0], reply(d['rc1'])), (order[1], reply(d['rc2']))])
                if r2.variant == 'Pending': r2 = poll(c, co2)
        finally:
            c.env = {}
        return {'r1': r1, 'r2': r2, 'ids': order}

    def oracle(self, d, out):
        if out[0] == 'panic': return [('no panic', FALSE)]
        o = out[1]
        obs = [('two requests were queued under different message IDs', z3.BoolVal(len(o['ids']) == 2 and o['ids'][0] != o['ids'][1]))]
        r1 = o['r1']
        e1 = r1.variant == 'Ready' and r1.fields[0].variant == 'Err'
        obs.append(('the first operation gives up with an error when its timer expires', z3.BoolVal(e1)))
        r2 = o['r2']
        if r2.variant != 'Ready':
            obs.append(('the second operation completes once its own reply has arrived', FALSE)); return obs
        v = r2.fields[0]
        obs.append(('the second operation returns a result', z3.BoolVal(v.variant == 'Ok')))
        if v.variant == 'Ok':
            res = deref(v.fields[0])
            rc = deref(res[0]).fields['rc'] if isinstance(res, Tup) else deref(res).fields['rc']
            obs.append(('...and it is the reply the server sent under ITS message ID, not the late reply to the operation before it', rc == z3.ZeroExt(24, d['rc2'])))
        return obs

    def replay_by_role(self, cd, obname, out, m):
        from .scenarios import script, step, BIND, BIND_OK, okres
        # natively: a timed operation whose reply comes late, then a second operation on the same handle
        case = script([BIND, {'do': 'delete_given_up', 'dn': 'dc=first', 'ms': 60}, {'do': 'delete', 'dn': 'dc=second'}],
                      [BIND_OK, {'delay_ms': 250, 'replies': [{'id': 'req', 'op': okres(11, 49)}]}, {'replies': [{'id': 'req', 'op': okres(11, 7)}]}])
        nj = native([case])[0]; v = nj['value']
        r1, r2 = step(v, 'delete_given_up'), step(v, 'delete', 0); bad = None
        if not (isinstance(r2, dict) and r2.get('ok', {}).get('rc') == 7): bad = f'the second operation returned {json.dumps(r2)[:90]} instead of its own reply (rc 7); the first returned {json.dumps(r1)[:60]}'
        return bool(bad), 'late-reply-misrouted', f'late reply to a given-up operation: {bad}' if bad else None, case, {'native': v['steps']}

    def case(self, cd): return {}

    def summary(self, out, model=None):
        if out[0] == 'panic': return {'panic': out[1].msg}
        o = out[1]
        return {'ids': o['ids'], 'first': o['r1'].variant, 'second': o['r2'].variant}

    def in_summary(self, d, model=None):
        return {'second_timed': d['second_timed']}

    def regions(self, d, out):
        return ['timed' if d['second_timed'] else 'untimed']


def body(chk):
    quick = chk.tier == 'quick'
    nr, ns = (2, 1) if quick else (4, 3)
    need = {'C01': ('resp', 'op-single', 'op-search', 'none'), 'C04': ('resp-eof', 'resp-err', 'op-closed', 'op-unbind', 'op-single', 'misc-closed'), 'C12': ('scrub', 'resp'),
            'C13': ('scrub', 'resp', 'op-single', 'op-search', 'op-abandon', 'op-unbind')}[PID]
    run_lane(chk, driver.DriverStep, (PID, nr, ns), bounds={'pre-state': f'{nr} pending single-result operations + {ns} running search(es) with symbolic, pairwise distinct IDs; in-use set an arbitrary array containing them',
             'events': [e for e in driver.EVENTS if driver.DriverStep(None, PID, nr, ns).want_event(e)], 'select! start index': 'symbolic', 'socket answers': 'ok / error per call', 'response': 'any ID, any operation tag <= 30'},
             selftest=False, need_regions=need)
    if PID in ('C04', 'C01', 'C12'):
        # the idle connection: nothing pending, nothing running
        run_lane(chk, driver.DriverStep, (PID, 0, 0), bounds={'pre-state': 'no pending operation and no running search (idle connection)', 'events': 'as above', 'response': 'any ID (incl. 0 and negative), any operation tag <= 30'},
                 selftest=False, need_regions={'C04': ('resp-eof', 'resp-err', 'op-single'), 'C01': ('resp', 'none'), 'C12': ('resp',)}[PID])
    if PID == 'C01':
        run_lane(chk, ReplyRouting, (), bounds={'history': 'operation 1 gives up (timer), its reply arrives late; operation 2 on the same handle, timed or not', 'result codes': 'symbolic, distinct'},
                 selftest=False, variant='hooks', need_regions=('timed', 'untimed'))
    if streams is not None:
        streams.extra_lanes(chk, PID)
    chk.assumptions += driver.ASSUMPTIONS.get(PID, []) + driver.ASSUMPTIONS['all']


if __name__ == '__main__':
    run_check(PID, body)
