"""C07 BER encoding and parsing are mutual inverses and encoding is canonical.
Engine A: scalar kernels at full width.  Engine B: tree round trip, Tag variants, raw equivalence
with an independent definite-length decoder."""
import itertools
import json
import z3
from .framework import *
from .lane import Lane, run_lane
from . import ber, kani
from mirsym.values import *
from mirsym.engine import TRUE, FALSE
from mirsym.models import eq_term, and_all


# ---------------------------------------------------------------------------- helpers

def parse_outcome_summary(out, model=None):
    if out[0] == 'panic':
        return {'panic': out[1].key()}
    r = out[1]
    if r.variant == 'Ok':
        rest, tree = r.fields[0]
        e = (lambda t: ev(model, t)) if model is not None else conc
        return {'ok': tree_json(tree, model), 'rest': [e(b) for b in as_items(rest)]}
    return {'err': r.fields[0].variant}


def as_items(x):
    x = deref(x)
    return x.items() if isinstance(x, SliceV) else (x.items if isinstance(x, VecV) else list(x))


def native_parse_outcome(j):
    if j['outcome'] == 'panic':
        return native_panic(j)
    v = j['value']
    if v['r'] == 'ok':
        return ('ret', Ok(Tup([SliceV(bvs(v['rest'])), tree_val(v['tree'])])))
    return ('ret', Err(EnumV('Err', {'incomplete': 'Incomplete', 'error': 'Error', 'failure': 'Failure'}[v['r']], [])))


# ---------------------------------------------------------------------------- lane: tree round trip

class TreeRoundTrip(Lane):
    """parse_tag(encode_into(t) ++ trailer) == (trailer, t) for every tree of one shape; classes are
    a nondeterministic choice, tag numbers any of 0..30, payload and trailer bytes fully symbolic"""
    name = 'C07.tree_roundtrip'

    def __init__(self, ctx, shapes, ntrail):
        Lane.__init__(self, ctx, shapes, ntrail)
        self.shapes = shapes; self.ntrail = ntrail

    def build(self, sh, path, c):
        ci = c.choose(4, 'class')
        id5 = z3.BitVec('id_' + '_'.join(map(str, path)), 5)
        c.assume(id5 != 31)
        idv = z3.ZeroExt(59, id5)
        if sh[0] == 'p':
            bs = [z3.BitVec(f'p_{"_".join(map(str, path))}_{i}', 8) for i in range(sh[1])]
            return ber.prim(ci, idv, bs)
        return ber.cons(ci, idv, [self.build(k, path + (i,), c) for i, k in enumerate(sh[1])])

    def inputs(self):
        c = self.c
        si = c.choose(len(self.shapes), 'shape') if len(self.shapes) > 1 else 0
        t = self.build(self.shapes[si], (0,), c)
        trail = [z3.BitVec(f'trail{i}', 8) for i in range(self.ntrail)]
        return {'tree': t, 'trail': trail}

    def execute(self, inp):
        c = self.c
        from mirsym.engine import clone_val
        buf = BytesMutV([])
        r = c.run_fn('encode_into', [buf, clone_val(inp['tree'])])
        if r.variant != 'Ok':
            raise PanicExc('encode_into', 'err', 'returned Err')
        enc = list(buf.items)
        r2 = c.run_fn('parse_tag', [SliceV(enc + list(inp['trail']))])
        return {'enc': enc, 'parsed': r2}

    def oracle(self, inp, out):
        if out[0] == 'panic':
            return [('no panic', FALSE)]
        enc = out[1]['enc']; r = out[1]['parsed']
        ref = ber.ref_encode(inp['tree'])
        obs = [('encoding is the canonical (definite, minimal-length) DER-style TLV sequence',
                eq_term(SliceV(enc), SliceV(ref)))]
        if r.variant != 'Ok':
            obs.append(('parse_tag accepts the encoder output', FALSE)); return obs
        rest, tree = r.fields[0]
        obs.append(('parsed tree identical to the encoded one', eq_term(tree, inp['tree'])))
        obs.append(('trailing bytes untouched', eq_term(rest, SliceV(inp['trail']))))
        return obs

    def case(self, cinp):
        return {'cmd': 'roundtrip', 'tree': tree_json(cinp['tree']), 'trail': ints(cinp['trail'])}

    def native_outcome(self, cinp, j):
        if j['outcome'] == 'panic':
            return native_panic(j)
        v = j['value']
        pj = {'outcome': 'ok', 'value': v['parsed']}
        return ('ret', {'enc': bvs(v['bytes']), 'parsed': native_parse_outcome(pj)[1]})

    def summary(self, out, model=None):
        if out[0] == 'panic': return {'panic': out[1].key()}
        e = (lambda t: ev(model, t)) if model is not None else conc
        return {'enc': [e(b) for b in out[1]['enc']], 'parsed': parse_outcome_summary(('ret', out[1]['parsed']), model)}

    def in_summary(self, inp, model=None):
        return {'tree': tree_json(inp['tree'], model), 'trail': [ev(model, b) if model is not None else conc(b) for b in inp['trail']]}

    def regions(self, inp, out):
        t = inp['tree']
        return ['constructed-root' if t.fields['payload'].variant == 'C' else 'primitive-root']

    def concrete_vectors(self, rng):
        out = []
        for _ in range(12):
            def rt(d):
                if d == 0 or rng.random() < 0.5:
                    return ber.prim(rng.randrange(4), rng.randrange(31), bvs([rng.randrange(256) for _ in range(rng.randrange(4))]))
                return ber.cons(rng.randrange(4), rng.randrange(31), [rt(d - 1) for _ in range(rng.randrange(3))])
            out.append({'tree': rt(2), 'trail': bvs([rng.randrange(256) for _ in range(rng.randrange(3))])})
        return out


# ---------------------------------------------------------------------------- lane: long payloads at the length-form boundaries

class BoundaryLengths(Lane):
    """primitive payloads whose length sits on a length-form boundary (+-1): contents one symbolic
    byte repeated pattern is NOT used; every content byte is its own symbolic variable"""
    name = 'C07.length_boundaries'

    def __init__(self, ctx, lengths):
        Lane.__init__(self, ctx, lengths); self.lengths = lengths

    def inputs(self):
        c = self.c
        li = c.choose(len(self.lengths), 'len') if len(self.lengths) > 1 else 0
        n = self.lengths[li]
        wrap = c.choose(2, 'wrap')
        bs = [z3.BitVec(f'q{i}', 8) for i in range(n)]
        t = ber.prim(0, 4, bs)
        if wrap:
            t = ber.cons(1, 3, [t])
        return {'tree': t, 'trail': [z3.BitVec('trail0', 8)]}

    execute = TreeRoundTrip.execute
    oracle = TreeRoundTrip.oracle
    case = TreeRoundTrip.case
    native_outcome = TreeRoundTrip.native_outcome
    in_summary = lambda self, inp, model=None: {'payload_len': len(as_items(inp['tree'].fields['payload'].fields[0])) if inp['tree'].fields['payload'].variant == 'P' else 'wrapped'}

    def summary(self, out, model=None):
        if out[0] == 'panic': return {'panic': out[1].key()}
        e = (lambda t: ev(model, t)) if model is not None else conc
        return {'enc_head': [e(b) for b in out[1]['enc'][:8]], 'enc_len': len(out[1]['enc']), 'parsed': out[1]['parsed'].variant}


# ---------------------------------------------------------------------------- lane: Tag variants

class TagVariants(Lane):
    """each lber `Tag` variant's into_structure() gives the tree X.690 prescribes"""
    name = 'C07.tag_variants'
    KINDS = ['Integer', 'Enumerated', 'OctetString', 'Boolean', 'Null', 'Sequence', 'Set', 'ExplicitTag', 'StructureTag']

    def __init__(self, ctx, nbytes):
        Lane.__init__(self, ctx, nbytes); self.nbytes = nbytes

    def leaf(self, kind, tagn, child=False):
        c = self.c
        ci = [0, 2][c.choose(2, 'class' + tagn)] if child else c.choose(4, 'class' + tagn)
        id5 = z3.BitVec('id' + tagn, 5); c.assume(id5 != 31); idv = z3.ZeroExt(59, id5)
        clsv = ber.cls(ci)
        if kind in ('Integer', 'Enumerated'):
            # children of SEQUENCE/SET: 8-bit sign-extended values (the full i64 range is the leaf case)
            v = z3.SignExt(56, z3.BitVec('v8' + tagn, 8)) if child else z3.BitVec('v' + tagn, 64)
            return EnumV('Tag', kind, [StructV(kind, [('id', idv), ('class', clsv), ('inner', v)])])
        if kind == 'OctetString':
            bs = [z3.BitVec(f'o{tagn}_{i}', 8) for i in range(self.nbytes)]
            return EnumV('Tag', kind, [StructV(kind, [('id', idv), ('class', clsv), ('inner', VecV(bs))])])
        if kind == 'Boolean':
            return EnumV('Tag', kind, [StructV(kind, [('id', idv), ('class', clsv), ('inner', z3.Bool('b' + tagn))])])
        if kind == 'Null':
            return EnumV('Tag', kind, [StructV(kind, [('id', idv), ('class', clsv), ('inner', UNIT)])])
        if kind == 'StructureTag':
            bs = [z3.BitVec(f's{tagn}_{i}', 8) for i in range(self.nbytes)]
            return EnumV('Tag', kind, [ber.prim(ci, idv, bs)])
        raise AssertionError(kind)

    def inputs(self):
        c = self.c
        k = self.KINDS[c.choose(len(self.KINDS), 'kind')]
        if k in ('Sequence', 'Set'):
            n = c.choose(3, 'n')
            kids = [self.leaf(['Integer', 'OctetString', 'Boolean'][c.choose(3, f'kk{i}')], f'_k{i}', child=True) for i in range(n)]
            ci = c.choose(4, 'class'); id5 = z3.BitVec('id', 5); c.assume(id5 != 31)
            t = EnumV('Tag', k, [StructV(k, [('id', z3.ZeroExt(59, id5)), ('class', ber.cls(ci)), ('inner', VecV(kids))])])
        elif k == 'ExplicitTag':
            inner = self.leaf(['Integer', 'OctetString', 'Null'][c.choose(3, 'ek')], '_e', child=True)
            ci = c.choose(4, 'class'); id5 = z3.BitVec('id', 5); c.assume(id5 != 31)
            t = EnumV('Tag', k, [StructV(k, [('id', z3.ZeroExt(59, id5)), ('class', ber.cls(ci)), ('inner', BoxV([inner]))])])
        else:
            t = self.leaf(k, '')
        return {'tag': t}

    def execute(self, inp):
        from mirsym.engine import clone_val
        return self.c.run_fn('<Tag as ASNTag>::into_structure', [clone_val(inp['tag'])])

    @staticmethod
    def ref_int_octets(c, v):
        """minimal two's-complement content octets of a 64-bit term; forks on the octet count"""
        conds = []
        for n in range(1, 9):
            if n == 8:
                fits = TRUE
            else:
                sh = 8 * n - 1
                fits = z3.Or(z3.Extract(63, sh, v) == 0, z3.Extract(63, sh, v) == z3.BitVecVal(-1, 64 - sh))
            conds.append(fits)
        # first n that fits
        excl = []
        first = []
        for n, f in enumerate(conds, 1):
            first.append(z3.And(f, *[z3.Not(g) for g in excl])); excl.append(f)
        n = c.decide(first) + 1
        return [z3.Extract(8 * (n - 1 - i) + 7, 8 * (n - 1 - i), v) for i in range(n)]

    def ref_tree(self, t):
        c = self.c
        s = t.fields[0]; k = t.variant
        if k == 'StructureTag':
            return s
        idv, clsv, inner = s.fields['id'], s.fields['class'], s.fields['inner']
        if k in ('Integer', 'Enumerated'):
            return ber.prim(clsv, idv, self.ref_int_octets(c, inner))
        if k == 'OctetString':
            return ber.prim(clsv, idv, inner.items)
        if k == 'Boolean':
            return ber.prim(clsv, idv, [z3.If(inner, bv(0xFF, 8), bv(0, 8)) if not isinstance(inner, bool) else bv(0xFF if inner else 0, 8)])
        if k == 'Null':
            return ber.prim(clsv, idv, [])
        if k in ('Sequence', 'Set'):
            return ber.cons(clsv, idv, [self.ref_tree(x) for x in inner.items])
        if k == 'ExplicitTag':
            return ber.cons(clsv, idv, [self.ref_tree(inner[0])])

    def oracle_(self, inp, out):
        if out[0] == 'panic':
            return [('no panic', FALSE)]
        return [('into_structure gives the prescribed tree', eq_term(out[1], self.ref_tree(inp['tag'])))]

    def tag_json(self, t, model=None):
        e = (lambda x: ev(model, x)) if model is not None else (lambda x: (z3.is_true(x) if z3.is_bool(x) else conc(x)))
        s = t.fields[0]; k = t.variant
        if k == 'StructureTag':
            return {'k': k, 'tree': tree_json(s, model)}
        d = {'k': k, 'id': e(s.fields['id']), 'cl': ber.CLASSES.index(s.fields['class'].variant)}
        inner = s.fields['inner']
        if k in ('Integer', 'Enumerated'):
            v = e(inner); d['v'] = v - (1 << 64) if v >> 63 else v
        elif k == 'OctetString': d['bytes'] = [e(b) for b in inner.items]
        elif k == 'Boolean': d['b'] = bool(e(inner))
        elif k in ('Sequence', 'Set'): d['inner'] = [self.tag_json(x, model) for x in inner.items]
        elif k == 'ExplicitTag': d['inner'] = self.tag_json(inner[0], model)
        return d

    def case(self, cinp):
        return {'cmd': 'tag_into_structure', 'tag': self.tag_json(cinp['tag'])}

    def native_outcome(self, cinp, j):
        if j['outcome'] == 'panic':
            return native_panic(j)
        return ('ret', tree_val(j['value']['tree']))

    def summary(self, out, model=None):
        return {'panic': out[1].key()} if out[0] == 'panic' else tree_json(out[1], model)

    def in_summary(self, inp, model=None):
        return self.tag_json(inp['tag'], model)

    def regions(self, inp, out):
        return [inp['tag'].variant]

    def key(self, obname, out):
        return Lane.key(self, obname, out) + ':' + self._kind

    def run(self):
        r = Lane.run(self)
        self._kind = r[0]['tag'].variant
        return r

    def oracle(self, inp, out):
        self._kind = inp['tag'].variant
        return self.oracle_(inp, out)


# ---------------------------------------------------------------------------- lane: raw equivalence with the reference decoder

class RawEquiv(Lane):
    """every byte string of exactly n bytes that is a valid definite-length TLV (+ trailing bytes)
    by the reference decoder parses to the same tree with the same remainder"""
    name = 'C07.raw_equivalence'

    def __init__(self, ctx, n):
        Lane.__init__(self, ctx, n); self.n = n

    def inputs(self):
        return {'buf': [z3.BitVec(f'b{i}', 8) for i in range(self.n)]}

    def execute(self, inp):
        return self.c.run_fn('parse_tag', [SliceV(list(inp['buf']))])

    def oracle(self, inp, out):
        c = self.c
        try:
            ref = ber.ref_parse(c, SliceV(list(inp['buf'])))
        except ber.OutOfScope:
            return []
        if ref[0] != 'ok':
            return []          # not a valid complete encoding: C07 makes no claim (C06/C11 do)
        if out[0] == 'panic':
            return [('no panic on valid BER', FALSE)]
        r = out[1]
        if r.variant != 'Ok':
            return [('valid definite-length BER is accepted', FALSE)]
        rest, tree = r.fields[0]
        return [('same tree as the independent decoder', eq_term(tree, ref[1])),
                ('same remainder as the independent decoder', eq_term(rest, ref[2]))]

    def case(self, cinp):
        return {'cmd': 'parse_tag', 'bytes': ints(cinp['buf'])}

    def native_outcome(self, cinp, j):
        return native_parse_outcome(j)

    def summary(self, out, model=None):
        return parse_outcome_summary(out, model)

    def in_summary(self, inp, model=None):
        return [ev(model, b) if model is not None else conc(b) for b in inp['buf']]

    def regions(self, inp, out):
        if out[0] == 'ret' and out[1].variant == 'Ok':
            t = out[1].fields[0][1]
            return ['ok-constructed' if t.fields['payload'].variant == 'C' else 'ok-primitive']
        return []

    def concrete_vectors(self, rng):
        vecs = [[0x30, 0x03, 0x02, 0x01, 0x01], [0x04, 0x81, 0x02, 0x41, 0x42, 0x09], [0x30, 0x82, 0x00, 0x00], [0x60, 0x01, 0x00],
                [0xff, 0x03, 0x01, 0x02, 0x03], [2, 2, 255, 127], [0x30, 0x0c, 2, 1, 1, 0x61, 7, 10, 1, 0, 4, 0, 4, 0]]
        for _ in range(40):
            n = rng.randrange(1, 9)
            v = [rng.randrange(256) for _ in range(n)]
            if rng.random() < 0.7 and n >= 2:
                v[1] = rng.randrange(0, n)        # plausible short length
            vecs.append(v)
        return [{'buf': bvs(v)} for v in vecs]


# ---------------------------------------------------------------------------- engine A: scalar kernels

def ref_int_octets_py(v):
    n = 1
    while not (-(1 << (8 * n - 1)) <= v < (1 << (8 * n - 1))):
        n += 1
    return list((v & ((1 << (8 * n)) - 1)).to_bytes(n, 'big'))


def kani_part(chk):
    hs = ['int_all_i64', 'enum_all_i64', 'len_all_usize', 'ident_octet', 'bool_ff', 'int_twin_must_fail', 'len_twin_must_fail']
    res = kani.run_kani(hs, timeout=900 if chk.tier == 'quick' else 2400)
    for h, r in res.items():
        chk.cov['kani'].append({k: r.get(k) for k in ('harness', 'status', 'vccs', 'checks_failed', 'covers_sat', 'covers', 'time_s', 'verify_s', 'failed_checks')})
        chk.cov['evaluations'] += r.get('vccs') or 0
        twin = h.endswith('_must_fail')
        if twin:
            chk.cov['vacuity'][h] = r['status']
            if r['status'] != 'failed':
                chk.inconclusive.append(f'kani vacuity twin {h} did not fail ({r["status"]})')
            continue
        if r['status'] == 'success':
            chk.cov['states'] += 1
            chk.cov['distinct_nontrivial'] += 1
            if r.get('covers') and r.get('covers_sat') != r.get('covers'):
                chk.inconclusive.append(f'kani {h}: only {r.get("covers_sat")}/{r.get("covers")} cover witnesses satisfied')
            chk.samples.append({'lane': 'kani', 'harness': h, 'vccs': r.get('vccs'), 'verify_s': r.get('verify_s'), 'bound': 'full machine width; unwinding assertions on'})
        elif r['status'] == 'failed':
            kani_failure(chk, h, r)
        else:
            chk.inconclusive.append(f'kani {h}: {r["status"]} {r.get("tail", "")[-400:]}')
    chk.cov['bounds']['kani'] = {'int/enum': 'all i64', 'length': 'all usize', 'identifier octet': '4 classes x P/C x tag 0..30', 'unwind': 'int 10, len 10, ident 4'}


def kani_failure(chk, h, r):
    """FAILED: extract concrete values (concrete playback), replay natively, compare with the python reference"""
    pb = kani.playback(h)
    rows = pb.get('playback') or []
    cands = []
    if h in ('int_all_i64', 'enum_all_i64') and rows:
        v = int.from_bytes(bytes(rows[0]), 'little', signed=True); cands.append(v)
    # boundary values are always replayed too: they identify the defect by role, not by the solver's pick
    if h in ('int_all_i64', 'enum_all_i64'):
        cands += [-129, -128, -32769, 128, -(1 << 63), (1 << 63) - 1, -1, 0]
        cases = [{'cmd': 'int', 'v': v} for v in cands]
        nat = native(cases)
        field = 'int' if h == 'int_all_i64' else 'enum'
        reproduced = []
        for v, j in zip(cands, nat):
            if j['outcome'] == 'panic':
                reproduced.append((v, 'panic: ' + j.get('msg', '')))
            elif j['value'][field].get('p') != ref_int_octets_py(v):
                reproduced.append((v, f'content octets {j["value"][field].get("p")} != {ref_int_octets_py(v)}'))
        chk.cov['traces_validated_against_impl'] += len(cands)
        if reproduced:
            neg = [x for x in reproduced if x[0] < 0 and 'panic' not in x[1]]
            pan = [x for x in reproduced if 'panic' in x[1]]
            pos = [x for x in reproduced if x[0] >= 0 and 'panic' not in x[1]]
            if neg:
                chk.report(f'{field}:negative-octet-count', f'{h}: INTEGER/ENUMERATED content octets wrong for negative values, e.g. {neg[0][0]} -> {neg[0][1]}', cases[cands.index(neg[0][0])], True, reproduced)
            if pan:
                chk.report(f'{field}:panic', f'{h}: into_structure panics, e.g. {pan[0][0]}: {pan[0][1]}', cases[cands.index(pan[0][0])], True, reproduced)
            if pos:
                chk.report(f'{field}:nonnegative-octet-count', f'{h}: content octets wrong for non-negative values, e.g. {pos[0][0]} -> {pos[0][1]}', cases[cands.index(pos[0][0])], True, reproduced)
        else:
            chk.report(f'{field}:kani-failed', f'{h}: Kani reports {r.get("failed_checks")}', {'cmd': 'int', 'v': cands[0] if cands else 0}, False, r.get('failed_checks'))
        return
    if h == 'len_all_usize':
        cands = []
        if rows: cands.append(int.from_bytes(bytes(rows[0]), 'little'))
        cands += [0, 127, 128, 255, 256, 65535, 65536, (1 << 24) - 1, 1 << 24, (1 << 32) - 1, 1 << 32, (1 << 64) - 1]
        cases = [{'cmd': 'len', 'l': v} for v in cands]
        nat = native(cases); bad = []
        for v, j in zip(cands, nat):
            exp = ber.py_len_octets(v)
            if j['outcome'] == 'panic' or j['value']['bytes'] != exp or j['value']['back'] != {'r': 'ok', 'rest': 0, 'n': v}:
                bad.append((v, j))
        chk.cov['traces_validated_against_impl'] += len(cands)
        if bad:
            chk.report('len:octets', f'write_length/parse_length wrong at length {bad[0][0]}: {json.dumps(bad[0][1])[:200]}', cases[cands.index(bad[0][0])], True, str(bad)[:1000])
        else:
            chk.report('len:kani-failed', f'{h}: Kani reports {r.get("failed_checks")}', cases[0], False, r.get('failed_checks'))
        return
    if h in ('ident_octet', 'bool_ff'):
        bad = []
        cases = []
        if h == 'bool_ff':
            cases = [{'cmd': 'tag_into_structure', 'tag': {'k': 'Boolean', 'id': 1, 'cl': 0, 'b': b}} for b in (True, False)]
            nat = native(cases)
            for cse, j in zip(cases, nat):
                exp = [0xFF] if cse['tag']['b'] else [0]
                if j['outcome'] == 'panic' or j['value']['tree'].get('p') != exp:
                    bad.append((cse, j))
        else:
            for cl in range(4):
                for cons_ in (False, True):
                    for idn in range(31):
                        t = {'cl': cl, 'id': idn, 'c': []} if cons_ else {'cl': cl, 'id': idn, 'p': []}
                        cases.append({'cmd': 'roundtrip', 'tree': t, 'trail': [7]})
            nat = native(cases)
            for cse, j in zip(cases, nat):
                exp = ber.py_encode(cse['tree'])
                if j['outcome'] == 'panic' or j['value']['bytes'] != exp or j['value']['parsed'].get('tree') != cse['tree']:
                    bad.append((cse, j))
        chk.cov['traces_validated_against_impl'] += len(cases)
        if bad:
            chk.report(f'{h}:wrong', f'{h}: {json.dumps(bad[0])[:300]}', bad[0][0], True, str(bad)[:1000])
        else:
            chk.report(f'{h}:kani-failed', f'{h}: Kani reports {r.get("failed_checks")}', cases[0], False, r.get('failed_checks'))


# ---------------------------------------------------------------------------- check body

def body(chk):
    from concurrent.futures import ThreadPoolExecutor
    quick = chk.tier == 'quick'
    ex = ThreadPoolExecutor(max_workers=1)
    fut = ex.submit(kani_part, chk)         # Kani runs beside the MIR lanes
    d, w, p = (2, 2, 2) if quick else (3, 2, 2)
    shapes = ber.tree_shapes(d, w, p)
    if not quick:
        shapes = [s for s in shapes if ber.count_nodes(s) <= 5]
    run_lane(chk, TreeRoundTrip, (shapes, 2), bounds={'depth': d, 'width': w, 'payload_bytes': p, 'nodes': 'all shapes' if quick else '<= 5 nodes per tree', 'trailer_bytes': 2, 'shapes': len(shapes), 'classes': 'all 4 per node', 'tag numbers': '0..30 symbolic'},
             need_regions=('constructed-root', 'primitive-root'))
    if not quick:
        shapes2 = [s for s in ber.tree_shapes(2, 3, 3) if ber.count_nodes(s) == 4]
        run_lane(chk, TreeRoundTrip, (shapes2, 2), bounds={'depth': 2, 'width': 3, 'payload_bytes': 3, 'nodes': 'the 4-node shapes (root with 3 children)', 'trailer_bytes': 2, 'shapes': len(shapes2), 'classes': 'all 4 per node', 'tag numbers': '0..30 symbolic'},
                 selftest=False, need_regions=('constructed-root',))
    lens = [127, 128] if quick else [126, 127, 128, 129, 255, 256, 257]
    run_lane(chk, BoundaryLengths, (lens,), bounds={'payload lengths': lens, 'content': 'every byte symbolic'}, selftest=False)
    if not quick:
        run_lane(chk, BoundaryLengths, ([65535, 65536],), bounds={'payload lengths': [65535, 65536], 'content': 'every byte symbolic'}, selftest=False)
    run_lane(chk, TagVariants, (2 if quick else 3,), bounds={'octet-string bytes': 2 if quick else 3, 'integers': 'all i64', 'sequence/set children': '<=2'}, selftest=False,
             need_regions=tuple(TagVariants.KINDS))
    for n in ((1, 2, 3, 4, 5) if quick else (1, 2, 3, 4, 5, 6, 7)):
        run_lane(chk, RawEquiv, (n,), bounds={'raw bytes': n}, selftest=(n == 5), need_regions=(('ok-primitive',) if n >= 2 else ()))
    fut.result()
    chk.assumptions += [
        'tag numbers <= 30 (high-tag-number form is outside the property)',
        'raw lane: inputs with an indefinite (0x80) or reserved (0xFF) length octet are outside "valid definite-length BER"',
        'engine B executes rustc MIR (nightly, mir-opt-level=0) of the current tree; std/nom/bytes callees are modelled (list in coverage.models_used) and validated by the concrete differential self-test',
        'engine A (Kani/CBMC) checks the compiled crate with unwinding assertions on; allocation failure not modelled',
        'payload sizes beyond the stated bounds are outside the claim; the length arithmetic itself is covered for all usize by the Kani kernel',
    ]


if __name__ == '__main__':
    run_check('C07', body)
