"""C11 Hostile or corrupt server bytes cannot crash or wedge the connection (decoder part, B1),
and C06 decoder contract lanes share this module."""
import json
import z3
from .framework import *
from .lane import Lane, run_lane
from . import ber
from mirsym.values import *
from mirsym.engine import TRUE, FALSE
from mirsym.models import eq_term, and_all


def ctrl_json(v, e):
    v = deref(v)
    known, raw = v.nth(0), v.nth(1)
    val = raw.fields['val']
    crit = raw.fields['crit']
    return {'known': None if known.variant == 'None' else known.fields[0].variant,
            'oid': [e(b) for b in raw.fields['ctype'].b], 'crit': bool(e(crit)) if not isinstance(crit, bool) else crit,
            'val': None if val.variant == 'None' else [e(b) for b in val.fields[0].items]}


def decode_summary(out, model=None):
    if out[0] == 'panic':
        return {'panic': out[1].msg or out[1].kind}
    e = (lambda t: ev(model, t)) if model is not None else (lambda t: z3.is_true(t) if z3.is_bool(t) else conc(t))
    r, left = out[1]
    if r.variant == 'Err':
        return {'r': 'err'}
    o = r.fields[0]
    if o.variant == 'None':
        return {'r': 'none', 'left': left}
    mid, rest = o.fields[0]
    tag, ctrls = rest
    return {'r': 'some', 'id': e(mid) - (1 << 32) if e(mid) >> 31 else e(mid), 'op': tree_json(tag.fields[0], model), 'left': left,
            'ctrls': [ctrl_json(x, e) for x in ctrls.items]}


def native_decode_outcome(j):
    if j['outcome'] == 'panic':
        return native_panic(j)
    v = j['value']
    if v['r'] == 'err':
        return ('ret', (Err(Opaque('io::Error')), v['left']))
    if v['r'] == 'none':
        return ('ret', (Ok(NONE()), v['left']))
    ctrls = []
    for cj in v['ctrls']:
        known = NONE() if cj['known'] is None else Some(EnumV('ControlType', cj['known']))
        raw = StructV('RawControl', [('ctype', StrV(bvs(cj['oid']))), ('crit', z3.BoolVal(cj['crit'])),
                                     ('val', NONE() if cj['val'] is None else Some(VecV(bvs(cj['val']))))])
        ctrls.append(StructV('Control', [(0, known), (1, raw)]))
    tag = EnumV('Tag', 'StructureTag', [tree_val(v['op'])])
    return ('ret', (Ok(Some(Tup([z3.BitVecVal(v['id'], 32), Tup([tag, VecV(ctrls)])]))), v['left']))


class DecodeLane(Lane):
    """common part: run decode_inner on a buffer, return (result, bytes left in the buffer)"""

    def execute(self, inp):
        bm = BytesMutV(list(inp['buf']))
        r = self.c.run_fn('decode_inner', [bm])
        left = len(bm.items) - bm.lo
        self.after = bm.items[bm.lo:]
        return (r, left)

    def case(self, cinp):
        return {'cmd': 'decode', 'bytes': ints(cinp['buf'])}

    def native_outcome(self, cinp, j):
        return native_decode_outcome(j)

    def summary(self, out, model=None):
        return decode_summary(out, model)

    def in_summary(self, inp, model=None):
        return [ev(model, b) if model is not None else conc(b) for b in inp['buf']]

    def contract(self, inp, out):
        """C11/C06 decoder contract on one buffer: no panic; Ok(None) only if the first TLV is really
        incomplete (and then nothing is consumed); Ok(Some) consumes exactly the first TLV"""
        c = self.c
        n = len(inp['buf'])
        if out[0] == 'panic':
            return [('no panic', FALSE)]
        r, left = out[1]
        try:
            h = ber.ref_header(c, SliceV(list(inp['buf'])), no_hightag=False)
        except ber.OutOfScope:
            h = ('oos',)
        complete = h[0] == 'ok' and h[5] is not None
        obs = []
        if r.variant == 'Ok' and r.fields[0].variant == 'None':
            obs.append(('need-more leaves the buffer untouched', z3.BoolVal(left == n)))
            if h[0] != 'oos':
                obs.append(('a frame whose announced bytes have all arrived is delivered or rejected, not awaited', z3.BoolVal(not complete)))
        elif r.variant == 'Ok':
            if h[0] == 'oos':
                return obs
            obs.append(('no message is surfaced before its last byte arrived', z3.BoolVal(complete)))
            if complete:
                obs.append(('exactly the frame is consumed', z3.BoolVal(left == n - (h[4] + h[5]))))
        return obs


class Arbitrary(DecodeLane):
    name = 'C11.arbitrary_bytes'

    def __init__(self, ctx, n):
        Lane.__init__(self, ctx, n); self.n = n

    def inputs(self):
        return {'buf': [z3.BitVec(f'b{i}', 8) for i in range(self.n)]}

    def oracle(self, inp, out):
        return self.contract(inp, out)

    def regions(self, inp, out):
        if out[0] == 'panic': return ['panic']
        r = out[1][0]
        return ['err' if r.variant == 'Err' else ('none' if r.fields[0].variant == 'None' else 'some')]

    def concrete_vectors(self, rng):
        vecs = [[0x30, 0x0c, 2, 1, 1, 0x61, 7, 10, 1, 0, 4, 0, 4, 0], [0x30, 5, 2, 1, 1, 0x42, 0], [0x30, 0x84, 0, 0, 0, 5, 2, 1, 1, 0x42, 0, 9, 9],
                [0x30, 0x1d, 2, 1, 5, 0x65, 7, 10, 1, 0, 4, 0, 4, 0, 0xa0, 0x0f, 0x30, 0x0d, 4, 3, 0x31, 0x2e, 0x32, 1, 1, 0xff, 4, 3, 1, 2, 3],
                [0x30, 0x0c, 2, 1, 1, 0x61, 7], [0x04, 2, 1, 2]]
        for _ in range(30):
            base = list(vecs[rng.randrange(4)])
            for _ in range(rng.randrange(3)):
                base[rng.randrange(len(base))] = rng.randrange(256)
            vecs.append(base[:rng.randrange(1, len(base) + 1)])
        return [{'buf': bvs(v)} for v in vecs]


# valid message skeletons for the mutation lane (python-encoded with the reference encoder)

def T(cl, idn, *kids, p=None):
    return {'cl': cl, 'id': idn, 'p': list(p)} if p is not None else {'cl': cl, 'id': idn, 'c': list(kids)}


def msg(mid, op, ctrls=None):
    parts = [T(0, 2, p=[mid]), op]
    if ctrls is not None:
        parts.append(T(2, 0, *ctrls))
    return T(0, 16, *parts)


def result_op(tagno, rc=0, dn=b'', text=b'', extra=()):
    return T(1, tagno, T(0, 10, p=[rc]), T(0, 4, p=dn), T(0, 4, p=text), *extra)


def ctrl(oid, crit=None, val=None):
    parts = [T(0, 4, p=oid)]
    if crit is not None: parts.append(T(0, 1, p=[0xFF if crit else 0]))
    if val is not None: parts.append(T(0, 4, p=val))
    return T(0, 16, *parts)


SKELETONS = [
    ('bind-response', msg(1, result_op(1))),
    ('search-done+paged-control', msg(2, result_op(5, 0, b'', b'ok'), [ctrl(b'1.2.840.113556.1.4.319', None, [0x30, 5, 2, 1, 0, 4, 0])])),
    ('search-entry', msg(2, T(1, 4, T(0, 4, p=b'cn=a'), T(0, 16, T(0, 16, T(0, 4, p=b'cn'), T(0, 17, T(0, 4, p=b'a'))))))),
    ('search-reference', msg(2, T(1, 19, T(0, 4, p=b'ldap://x')))),
    ('delete-response+referral', msg(3, result_op(11, 10, b'', b'', (T(2, 3, T(0, 4, p=b'ldap://h')),)))),
    ('extended-response', msg(4, result_op(24, 0, b'', b'', (T(2, 10, p=b'1.3.6'), T(2, 11, p=b'v'))))),
    ('bind-response+sasl', msg(5, result_op(1, 14, b'', b'', (T(2, 7, p=b'tok'),)))),
    ('compare-response+critical-control', msg(6, result_op(15, 6), [ctrl(b'1.2', True, b'v'), ctrl(b'2.16.840.1.113730.3.4.2')])),
    ('notice-of-disconnection(AD form)', T(0, 16, T(0, 2, p=[0]), result_op(24, 52), T(2, 10, p=b'1.3.6.1.4.1.1466.20036'))),
    ('intermediate-response', msg(7, T(1, 25, T(2, 0, p=b'1.3.6.1.4.1.4203.1.9.1.4'), T(2, 1, p=[0x80, 0])))),
    ('search-done', msg(2, result_op(5, 0, b'', b''))),
]


DRV_OB = 'the driver does not panic on a decoded message routed to a running search'


def skeleton_msgid(tree):
    """message ID of a skeleton (0 for the AD-style notice, which has no routable ID)"""
    try:
        first = tree['c'][0]
        return int.from_bytes(bytes(first['p']), 'big') if first['id'] == 2 and first['cl'] == 0 else 0
    except Exception:
        return 0


class Mutation(DecodeLane):
    """every single (double) byte mutation of valid messages: k positions made fully symbolic.
    A message decoded under the skeleton's ID is then fed to one iteration of the real driver (lane B3)
    with that ID registered as a running search."""
    name = 'C11.mutations'

    def __init__(self, ctx, skel, k):
        Lane.__init__(self, ctx, skel, k); self.skel = skel; self.k = k
        self.base = ber.py_encode(SKELETONS[skel][1])
        self.msgid = skeleton_msgid(SKELETONS[skel][1])

    def inputs(self):
        c = self.c
        n = len(self.base)
        buf = [bv(b, 8) for b in self.base]
        p1 = c.choose(n, 'pos1')
        buf[p1] = z3.BitVec('m1', 8)
        pos = [p1]
        if self.k == 2:
            p2 = p1 + 1 + c.choose(n - p1, 'pos2') if p1 + 1 < n else None
            if p2 is not None and p2 < n:
                buf[p2] = z3.BitVec('m2', 8); pos.append(p2)
        return {'buf': buf, 'pos': pos}

    def execute(self, inp):
        """decode; a message decoded under the skeleton's own ID is then handed to ONE ITERATION OF THE REAL DRIVER
        with that ID registered as a running search - the route on which the driver itself interprets the
        operation (entry / reference / done incl. its conversion of the final result / anything else)"""
        r, left = DecodeLane.execute(self, inp)
        inp['_drv'] = None
        if r.variant == 'Ok' and r.fields[0].variant == 'Some' and self.msgid >= 1:
            item = r.fields[0].fields[0]
            if self.c.branch(item[0] == self.msgid):
                inp['_drv'] = self.drive(item)
        return (r, left)

    def drive(self, item):
        from . import driver
        from mirsym.engine import clone_val
        ds = driver.DriverStep(self.c, 'C11', 0, 1)
        k = z3.BitVecVal(self.msgid, 32)
        d = {'event': 'resp', 'rkeys': [], 'skeys': [k], 'arr': z3.K(z3.BitVecSort(32), TRUE), 'id': k, '_inject': clone_val(item), 'send_fails': False}
        try:
            o = ds.execute(d)
        except PanicExc as e:
            return ('panic', e)
        poll = o['poll']
        res = 'pending' if poll.variant == 'Pending' else ('ok' if poll.fields[0].variant == 'Ok' else 'err')
        return (res, len(o['stoks'][0].sent))

    def oracle(self, inp, out):
        obs = self.contract(inp, out)
        drv = inp.get('_drv')
        if drv is not None:
            obs.append((DRV_OB, z3.BoolVal(drv[0] != 'panic')))
            obs.append(('a message for a running search is either delivered to it or ends the connection with an error', z3.BoolVal(drv[0] == 'panic' or (drv[0] == 'pending') == (drv[1] == 1))))
        return obs

    def replay_by_role(self, cinp, obname, out, m):
        if obname != DRV_OB and 'running search' not in obname:
            return self.default_replay(cinp, self.case(cinp), out, m)
        from .scenarios import script, step, BIND, BIND_OK, okres, stream_start
        # the same bytes, sent by a scripted peer as the answer to a search that runs under the skeleton's ID
        pre = self.msgid - 1
        steps = ([BIND] if pre >= 1 else []) + [{'do': 'delete', 'dn': 'dc=x'}] * max(0, pre - 1) + [stream_start([]), {'do': 'next'}, {'do': 'driver'}]
        server = ([BIND_OK] if pre >= 1 else []) + [{'replies': [{'id': 'req', 'op': okres(11)}]}] * max(0, pre - 1) + [{'replies': [{'raw': ints(cinp['buf'])}]}]
        case = script(steps, server)
        nj = native([case])[0]
        v = nj.get('value') or {}
        dr = step(v, 'driver'); nx = step(v, 'next')
        bad = None
        if v.get('driver') == 'panic' or dr == 'panic' or (isinstance(nx, dict) and 'panic' in nx):
            bad = f'the connection driver panicked on this message for a running search (next(): {json.dumps(nx)[:80]}, driver: {v.get("driver")})'
        elif nx == 'hang' and v.get('driver') == 'running' and obname != DRV_OB:
            bad = 'the message was neither delivered to the search nor ended the connection'
        det = {'native_steps': v.get('steps'), 'driver': v.get('driver'), 'bytes': ints(cinp['buf'])}
        return bool(bad), 'driver-panic:search-route' if bad and 'panick' in bad else None, (f'{SKELETONS[self.skel][0]} mutated at {cinp.get("pos")}: {bad}' if bad else None), case, det

    def in_summary(self, inp, model=None):
        return {'skeleton': SKELETONS[self.skel][0], 'positions': inp.get('pos'), 'bytes': DecodeLane.in_summary(self, inp, model)}

    def case(self, cinp):
        return {'cmd': 'decode_and_convert', 'bytes': ints(cinp['buf'])}

    def regions(self, inp, out):
        return Arbitrary.regions(self, inp, out)


class RecursionDepth(Lane):
    """parse_tag on `levels` nested constructed TLVs (innermost identifier octets symbolic): the number
    of nested parse_tag activations must stay below SAFE, the depth a 2 MiB thread stack holds with
    debug-build frames (measured: overflow below 2000 levels).  An unguarded parser recurses once per
    level; the counterexample is replayed natively with 400000 levels (< 1 MB) in a child process."""
    name = 'C11.recursion_depth'
    SAFE = 512

    def __init__(self, ctx, levels, nsym):
        Lane.__init__(self, ctx, levels, nsym); self.levels = levels; self.nsym = nsym

    def inputs(self):
        c = self.c
        rev = [0x00, None]           # innermost: identifier, length 0   (built inside out, reversed)
        syms = []
        body_len = 2
        buf = [('sym', 0), 0x00]
        # build outermost-first list of (identifier, length octets)
        inner_len = 0
        levels = []
        for k in range(self.levels):
            levels.append(inner_len)
            inner_len += 1 + len(ber.py_len_octets(inner_len))
        out = []
        for k in range(self.levels - 1, -1, -1):
            il = levels[k]
            if k < self.nsym:
                t = z3.BitVec(f't{k}', 8); c.assume((t & 0x20) != 0); c.assume((t & 0x1f) != 31)
            else:
                t = bv(0x30, 8)
            out.append(t); out.extend(bv(x, 8) for x in ber.py_len_octets(il))
        return {'buf': out}

    def execute(self, inp):
        c = self.c
        cur = {'d': 0, 'max': 0}
        orig = c.run_compiled
        c.max_depth = 100000

        def wrapped(fn, args):
            if fn.name in ('parse_tag', 'parse_tag_nested') or fn.name.endswith('::parse_tag'):
                cur['d'] += 1; cur['max'] = max(cur['max'], cur['d'])
                try:
                    return orig(fn, args)
                finally:
                    cur['d'] -= 1
            return orig(fn, args)
        c.run_compiled = wrapped
        try:
            r = c.run_fn('parse_tag', [SliceV(list(inp['buf']))])
        finally:
            c.run_compiled = orig
        return (r, cur['max'])

    def oracle(self, inp, out):
        if out[0] == 'panic':
            return [('no panic', FALSE)]
        return [(f'recursion depth stays below {self.SAFE} activations however deep the input nests', z3.BoolVal(out[1][1] < self.SAFE))]

    def case(self, cinp):
        return {'cmd': 'nest_probe', 'bytes': [], 'deep': 400000}

    def native_outcome(self, cinp, j):
        if j['outcome'] == 'crash':
            return ('ret', (None, 10 ** 9))
        if j['outcome'] == 'panic':
            return native_panic(j)
        return ('ret', (None, 0 if j['value'].get('deep_ok') else 10 ** 9))

    def summary(self, out, model=None):
        if out[0] == 'panic': return {'panic': out[1].msg}
        return {'max_parse_tag_depth': out[1][1] if out[1][1] < 10 ** 9 else 'stack overflow (process aborted)'}

    def in_summary(self, inp, model=None):
        return {'nested_levels': getattr(self, 'levels', None), 'bytes': len(inp['buf'])}

    def key(self, obname, out):
        return 'unbounded-recursion' if out[0] == 'ret' else Lane.key(self, obname, out)


def body(chk):
    quick = chk.tier == 'quick'
    for n in ((1, 2, 3, 4, 5, 6) if quick else tier_param('C11A', (1, 2, 3, 4, 5, 6, 7))):
        run_lane(chk, Arbitrary, (n,), bounds={'raw bytes': n}, selftest=(n == 4), need_regions=(('some',) if n >= 6 else ()))
    for si in range(len(SKELETONS)):
        run_lane(chk, Mutation, (si, 1), bounds={'skeleton': SKELETONS[si][0], 'bytes': len(ber.py_encode(SKELETONS[si][1])), 'symbolic positions': 'every single position, all 256 values'}, selftest=False)
    if not quick:
        for si in tier_param('C11K2', [0, 3, 10]):
            run_lane(chk, Mutation, (si, 2), bounds={'skeleton': SKELETONS[si][0], 'symbolic positions': 'every pair of positions, all 65536 values'}, selftest=False)
    lv = 600 if quick else 1500
    run_lane(chk, RecursionDepth, (lv, 2), bounds={'nested TLVs': lv, 'symbolic identifier octets': 2, 'safe depth': RecursionDepth.SAFE, 'native nesting replay': '400000 levels (< 1 MB)'}, selftest=False)
    from . import driver
    run_lane(chk, driver.DriverStep, ('C11', 1, 1), bounds={'driver step': 'a response with any ID and any operation tag <= 30 (incl. unexpected operations for a search ID), or a receive/decode error'}, selftest=False, need_regions=('resp', 'resp-err'))
    chk.assumptions += [
        'decoder part + driver reaction (lane B3, one iteration): the driver reaction (unknown operation for a search ID, error propagation to pending operations) needs lane B3',
        'mutation lane, second stage: every message decoded under its skeleton\'s own ID is handed to one iteration of the real driver coroutine with that ID registered as a running search (the route on which the driver interprets the operation itself, incl. its conversion of SearchResultDone)',
        'arbitrary lane: every byte string up to the stated length; mutation lane: 1 (2) fully symbolic byte(s) at every position of each valid skeleton',
        'stack exhaustion is shown by the recursion-depth measurement on symbolic input plus a native replay in a child process',
        'engine B executes rustc MIR of the current tree; std/nom/bytes callees are modelled and validated by the concrete differential self-test',
    ]


if __name__ == '__main__':
    run_check('C11', body)
