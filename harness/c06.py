"""C06 Message framing does not depend on how the byte stream is segmented.
Decoder contract under which tokio_util's Framed (trusted) yields the same items for every
chunking: F1 need-more <=> first TLV incomplete (buffer untouched), F2 exact consumption,
F3 prefix stability (same item whatever follows; every proper prefix says need-more)."""
import z3
from .framework import *
from .lane import Lane, run_lane
from . import ber
from .c11 import DecodeLane, Arbitrary, SKELETONS, decode_summary, native_decode_outcome
from mirsym.values import *
from mirsym.engine import TRUE, FALSE
from mirsym.models import eq_term


class Contract(Arbitrary):
    name = 'C06.decoder_contract'


def symbolic_frame(t, path=(0,)):
    """reference-encode a skeleton with every primitive content byte symbolic (structure, tags and
    lengths concrete) -> list of byte terms"""
    if 'p' in t:
        body = [z3.BitVec('c_' + '_'.join(map(str, path)) + f'_{i}', 8) for i in range(len(t['p']))]
    else:
        body = []
        for i, k in enumerate(t['c']):
            body.extend(symbolic_frame(k, path + (i,)))
    first = (t['cl'] << 6) | (0x20 if 'c' in t else 0) | t['id']
    return [bv(first, 8)] + [bv(x, 8) for x in ber.py_len_octets(len(body))] + body


class PrefixStability(Lane):
    """frame ++ trailer: decoding the frame alone, or followed by any 1..T further bytes, gives the
    identical item and leaves exactly the trailer; every proper prefix of the frame gives need-more
    with the buffer untouched"""
    name = 'C06.prefix_stability'

    def __init__(self, ctx, skel, ntrail, form):
        Lane.__init__(self, ctx, skel, ntrail, form); self.skel = skel; self.ntrail = ntrail; self.form = form

    def inputs(self):
        t = SKELETONS[self.skel][1]
        if self.form == 'min':
            frame = symbolic_frame(t)
        else:
            # same message with non-minimal (long-form) outer length octets: still one valid frame
            inner = symbolic_frame(t)
            hl = 1 + len(ber.py_len_octets(len(inner) - 2)) if False else None
            body = []
            for i, k in enumerate(t['c']):
                body.extend(symbolic_frame(k, (0, i)))
            frame = [bv(0x30, 8)] + [bv(x, 8) for x in ber.py_len_octets(len(body), self.form)] + body
        trail = [z3.BitVec(f'trail{i}', 8) for i in range(self.ntrail)]
        # well-formed messages only: a control's type is an LDAPOID, i.e. text (envelope child 2, control j, component 0)
        for b in frame:
            if z3.is_const(b) and b.decl().kind() == z3.Z3_OP_UNINTERPRETED:
                parts = b.decl().name().split('_')
                if len(parts) == 6 and parts[:3] == ['c', '0', '2'] and parts[4] == '0':
                    self.c.assume(z3.ULT(b, 0x80))
        return {'frame': frame, 'trail': trail}

    def dec(self, bs):
        bm = BytesMutV(list(bs))
        r = self.c.run_fn('decode_inner', [bm])
        return (r, len(bm.items) - bm.lo)

    def execute(self, inp):
        frame, trail = inp['frame'], inp['trail']
        res = {'exact': self.dec(frame), 'with': [self.dec(frame + trail[:j]) for j in range(1, len(trail) + 1)],
               'prefix': [self.dec(frame[:k]) for k in range(len(frame))]}
        return res

    def oracle(self, inp, out):
        if out[0] == 'panic':
            return [('no panic on a well-formed frame or its prefixes', FALSE)]
        res = out[1]; obs = []
        r0, left0 = res['exact']
        ok0 = r0.variant == 'Ok' and r0.fields[0].variant == 'Some'
        obs.append(('a complete well-formed frame is delivered', z3.BoolVal(ok0)))
        obs.append(('the frame is consumed entirely', z3.BoolVal(left0 == 0)))
        for j, (r, left) in enumerate(res['with'], 1):
            ok = r.variant == 'Ok' and r.fields[0].variant == 'Some'
            obs.append((f'frame followed by {j} more byte(s) is delivered', z3.BoolVal(ok)))
            obs.append((f'bytes of the next message are not consumed ({j} following)', z3.BoolVal(left == j)))
            if ok and ok0:
                obs.append((f'the delivered item does not depend on what follows ({j} following)', eq_term(r.fields[0].fields[0], r0.fields[0].fields[0])))
        for k, (r, left) in enumerate(res['prefix']):
            nm = r.variant == 'Ok' and r.fields[0].variant == 'None'
            obs.append((f'a proper prefix of a frame is answered with need-more', z3.BoolVal(nm)))
            obs.append((f'need-more leaves the buffer untouched', z3.BoolVal(left == k)))
        return obs

    def case(self, cinp):
        return {'cmd': 'prefixes', 'frame': ints(cinp['frame']), 'trail': ints(cinp['trail'])}

    def native_outcome(self, cinp, j):
        if j['outcome'] == 'panic':
            return native_panic(j)
        v = j['value']
        conv = lambda x: native_decode_outcome({'outcome': 'ok', 'value': x})[1]
        return ('ret', {'exact': conv(v['exact']), 'with': [conv(x) for x in v['with']], 'prefix': [conv(x) for x in v['prefix']]})

    def summary(self, out, model=None):
        if out[0] == 'panic': return {'panic': out[1].msg}
        res = out[1]
        return {'exact': decode_summary(('ret', res['exact']), model), 'with': [decode_summary(('ret', x), model).get('r') for x in res['with']],
                'prefix': [decode_summary(('ret', x), model).get('r') for x in res['prefix']]}

    def in_summary(self, inp, model=None):
        e = (lambda b: ev(model, b)) if model is not None else conc
        return {'skeleton': SKELETONS[self.skel][0], 'frame': [e(b) for b in inp['frame']], 'trail': [e(b) for b in inp['trail']]}

    def regions(self, inp, out):
        return ['delivered'] if out[0] == 'ret' and out[1]['exact'][0].variant == 'Ok' and out[1]['exact'][0].fields[0].variant == 'Some' else []

    def concrete_vectors(self, rng):
        t = SKELETONS[self.skel][1]
        fr = ber.py_encode(t)
        return [{'frame': bvs(fr), 'trail': bvs([rng.randrange(256) for _ in range(self.ntrail)])} for _ in range(3)]



class LargeFrame(PrefixStability):
    """a frame larger than the read buffer's initial capacity (8 KiB) and larger than 64 KiB, followed by the first
    bytes of the next message: delivered once, consumes exactly itself, the following bytes stay; proper prefixes
    (a few cut points incl. around 8192) say need-more.  Content: one symbolic byte repeated (the decoder never
    looks inside an OCTET STRING), head and tail bytes individually symbolic."""
    name = 'C06.large_frame'

    def __init__(self, ctx, size, ntrail):
        Lane.__init__(self, ctx, size, ntrail); self.size = size; self.ntrail = ntrail; self.skel = 0; self.form = 'min'

    def inputs(self):
        fill = z3.BitVec('fill', 8)
        text = [z3.BitVec(f'h{i}', 8) for i in range(4)] + [fill] * (self.size - 8) + [z3.BitVec(f't{i}', 8) for i in range(4)]
        op = [bv(0x61, 8)] + ber.len_octets(6 + len(ber.py_len_octets(len(text))) + len(text)) + [bv(x, 8) for x in (0x0a, 1, 0, 4, 0, 4)] + ber.len_octets(len(text)) + text
        body = [bv(x, 8) for x in (2, 1, 1)] + op
        frame = [bv(0x30, 8)] + ber.len_octets(len(body)) + body
        trail = [z3.BitVec(f'trail{i}', 8) for i in range(self.ntrail)]
        return {'frame': frame, 'trail': trail}

    def execute(self, inp):
        frame, trail = inp['frame'], inp['trail']
        n = len(frame)
        cuts = sorted({c for c in (1, 2, 5, 8191, 8192, 8193, n - 1) if 0 < c < n})
        return {'exact': self.dec(frame), 'with': [self.dec(frame + trail[:j]) for j in range(1, len(trail) + 1)], 'prefix': [self.dec(frame[:k]) for k in cuts], 'cuts': cuts}

    def oracle(self, inp, out):
        if out[0] == 'panic':
            return [('no panic on a well-formed frame or its prefixes', FALSE)]
        res = out[1]; obs = []
        r0, left0 = res['exact']
        ok0 = r0.variant == 'Ok' and r0.fields[0].variant == 'Some'
        obs.append(('a complete well-formed frame is delivered', z3.BoolVal(ok0)))
        obs.append(('the frame is consumed entirely', z3.BoolVal(left0 == 0)))
        for j, (r, left) in enumerate(res['with'], 1):
            ok = r.variant == 'Ok' and r.fields[0].variant == 'Some'
            obs.append((f'frame followed by {j} more byte(s) is delivered', z3.BoolVal(ok)))
            obs.append((f'bytes of the next message are not consumed ({j} following)', z3.BoolVal(left == j)))
        for k, (r, left) in zip(res['cuts'], res['prefix']):
            nm = r.variant == 'Ok' and r.fields[0].variant == 'None'
            obs.append(('a proper prefix of a frame is answered with need-more', z3.BoolVal(nm)))
            obs.append(('need-more leaves the buffer untouched', z3.BoolVal(left == k)))
        return obs

    def case(self, cinp):
        return {'cmd': 'prefixes', 'frame': ints(cinp['frame']), 'trail': ints(cinp['trail']), 'cuts': [1, 2, 5, 8191, 8192, 8193, len(cinp['frame']) - 1]}

    def native_outcome(self, cinp, j):
        if j['outcome'] == 'panic':
            return native_panic(j)
        v = j['value']
        conv = lambda x: native_decode_outcome({'outcome': 'ok', 'value': x})[1]
        n = len(cinp['frame'])
        cuts = sorted({c for c in (1, 2, 5, 8191, 8192, 8193, n - 1) if 0 < c < n})
        return ('ret', {'exact': conv(v['exact']), 'with': [conv(x) for x in v['with']], 'prefix': [conv(v['prefix'][k]) for k in cuts], 'cuts': cuts})

    def summary(self, out, model=None):
        if out[0] == 'panic': return {'panic': out[1].msg}
        res = out[1]
        return {'exact': decode_summary(('ret', res['exact']), model).get('r'), 'left_after': [x[1] for x in res['with']], 'prefix': [decode_summary(('ret', x), model).get('r') for x in res['prefix']]}

    def in_summary(self, inp, model=None):
        return {'frame bytes': len(inp['frame']), 'following bytes': len(inp['trail'])}

    def concrete_vectors(self, rng):
        return []

def body(chk):
    quick = chk.tier == 'quick'
    for n in ((1, 2, 3, 4, 5, 6) if quick else tier_param('C06', (1, 2, 3, 4, 5, 6, 7))):
        run_lane(chk, Contract, (n,), bounds={'raw bytes': n}, selftest=(n == 4))
    sk = [0, 3, 4, 6] if quick else list(range(len(SKELETONS)))
    for si in sk:
        if SKELETONS[si][0].startswith('notice'):
            continue
        run_lane(chk, PrefixStability, (si, 2, 'min'), bounds={'frame': SKELETONS[si][0], 'content bytes': 'all symbolic', 'following bytes': 2, 'prefixes': 'every proper prefix'},
                 need_regions=('delivered',))
    for form in ((1, 2) if quick else (1, 2, 4, 8)):
        if form == 1 and len(ber.py_encode(SKELETONS[0][1])) - 2 >= 256:
            continue
        run_lane(chk, PrefixStability, (0, 2, form), bounds={'frame': SKELETONS[0][0] + f' with {form} long-form outer length octets', 'following bytes': 2}, selftest=False, need_regions=('delivered',))
    for size in ((9000,) if quick else (9000, 70000)):
        run_lane(chk, LargeFrame, (size, 2), bounds={'frame': f'bind response with a {size}-byte diagnostic message (beyond the 8 KiB read buffer' + (' and beyond 64 KiB)' if size > 65536 else ')'), 'following bytes': 2,
                                                     'prefix cuts': [1, 2, 5, 8191, 8192, 8193, 'n-1']}, selftest=False, need_regions=('delivered',))
    chk.assumptions += [
        "tokio_util::codec::Framed's read loop is trusted: it calls decode() on the accumulated buffer after every read and again after every item; under F1-F3 the delivered sequence is independent of chunking",
        'frames other than the stated shapes (small skeletons, and one large frame of 9000 (70000) bytes) are outside the bound; length arithmetic for large frames is the C07 length kernel (all usize)',
        'message skeletons: concrete structure, every primitive content byte symbolic, except that control types (LDAPOIDs) are ASCII: the decoder rejects a control whose type is not text, and the property speaks of well-formed messages',
    ]


if __name__ == '__main__':
    run_check('C06', body)
