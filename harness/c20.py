"""C20 LDAP URL parameters are extracted as RFC 4516 defines them.
url::Url::path()/query() are stubs returning symbolic strings constrained by the url crate's
output contract for a non-special scheme; the oracle is a reference RFC 4516 splitter/decoder."""
import z3
from .framework import *
from .lane import Lane, run_lane
from . import ber
from mirsym.values import *
from mirsym.engine import TRUE, FALSE
from mirsym.models import eq_term, and_all, or_all, utf8_valid, percent_decode_bytes

PATH_EXCL = b'"#<>?`{}'
QUERY_EXCL = b'"#<>'


def printable_except(b, excl):
    return z3.And(z3.UGE(b, 0x21), z3.ULE(b, 0x7e), *[b != x for x in excl])


class RefErr(Exception):
    def __init__(self, kind): self.kind = kind


def split_on(c, bs, sep, maxparts=None):
    parts = []; cur = []
    for b in bs:
        if (maxparts is None or len(parts) < maxparts - 1) and c.branch(b == sep):
            parts.append(cur); cur = []
        else:
            cur.append(b)
    parts.append(cur)
    return parts


def decode_utf8(c, bs):
    out, _ = percent_decode_bytes(c, bs)
    if not c.branch(utf8_valid(out)): raise RefErr('DecodingUTF8')
    return out


def lit_eq(c, bs, lit, ci=False):
    lit = lit.encode()
    if len(bs) != len(lit): return False
    low = (lambda v: z3.If(z3.And(z3.UGE(v, 0x41), z3.ULE(v, 0x5a)), v | 0x20, v)) if ci else (lambda v: v)
    return c.branch(and_all([low(b) == l for b, l in zip(bs, lit)]))


def ref_params(c, path, query):
    """-> dict(base, attrs, scope, filter, exts={variant: value-or-None})"""
    p = list(path)
    if p and c.branch(p[0] == 0x2f): p = p[1:]
    base = decode_utf8(c, p)
    fields = split_on(c, list(query), 0x3f, 4) if query is not None else []
    f = lambda i: fields[i] if i < len(fields) and len(fields[i]) > 0 else None
    attrs = split_on(c, f(0), 0x2c) if f(0) is not None else [ber.bstr('*')]
    scope = 2
    if f(1) is not None:
        s = f(1)
        if lit_eq(c, s, 'base'): scope = 0
        elif lit_eq(c, s, 'one'): scope = 1
        elif lit_eq(c, s, 'sub'): scope = 2
        else: raise RefErr('InvalidScopeString')
    flt = decode_utf8(c, f(2)) if f(2) is not None else ber.bstr('(objectClass=*)')
    exts = {}
    if f(3) is not None:
        for e in split_on(c, f(3), 0x2c):
            iv = split_on(c, e, 0x3d, 2)
            idb = iv[0]; crit = False
            if idb and c.branch(idb[0] == 0x21):
                crit = True; idb = idb[1:]
            val = decode_utf8(c, iv[1] if len(iv) > 1 else [])
            if lit_eq(c, idb, '1.3.6.1.4.1.10094.1.5.1'): k = 'Credentials'
            elif lit_eq(c, idb, '1.3.6.1.4.1.10094.1.5.2'): k = 'SaslMech'
            elif lit_eq(c, idb, '1.3.6.1.4.1.1466.20037'): k = 'StartTLS'
            elif lit_eq(c, idb, 'bindname', ci=True): k = 'Bindname'
            elif lit_eq(c, idb, 'x-bindpw', ci=True): k = 'XBindpw'
            elif crit: raise RefErr('UnrecognizedCriticalExtension')
            else: continue
            if k not in exts:
                exts[k] = None if k == 'StartTLS' else val
    return {'base': base, 'attrs': attrs, 'scope': scope, 'filter': flt, 'exts': exts}


class UrlParams(Lane):
    name = 'C20.url_params'

    def __init__(self, ctx, plen, qlen):
        Lane.__init__(self, ctx, plen, qlen); self.plen = plen; self.qlen = qlen

    def inputs(self):
        c = self.c
        pl = c.choose(self.plen + 1, 'plen')
        path = [z3.BitVec(f'p{i}', 8) for i in range(pl)]
        if pl: c.assume(path[0] == 0x2f)            # with an authority the path is empty or starts with '/'
        for b in path[1:]: c.assume(printable_except(b, PATH_EXCL))
        hasq = c.choose(2, 'hasq')
        query = None
        if hasq:
            ql = c.choose(self.qlen + 1, 'qlen')
            query = [z3.BitVec(f'q{i}', 8) for i in range(ql)]
            for b in query: c.assume(printable_except(b, QUERY_EXCL))
        return {'path': path, 'query': query}

    def execute(self, inp):
        c = self.c
        c.intercept = {'Url::path': lambda ctx, call, u: StrV(list(inp['path'])),
                       'Url::query': lambda ctx, call, u: (Some(StrV(list(inp['query']))) if inp['query'] is not None else NONE())}
        try:
            return c.run_fn('get_url_params', [Opaque('Url')])
        finally:
            c.intercept = {}

    @staticmethod
    def cowb(v):
        v = deref(v); inner = deref(v.fields[0]) if isinstance(v, EnumV) and v.ty == 'Cow' else v
        return list(inner.b)

    def oracle(self, inp, out):
        c = self.c
        if out[0] == 'panic':
            return [('no URL makes parameter extraction panic', FALSE)]
        try:
            ref = ref_params(c, inp['path'], inp['query'])
        except RefErr as e:
            self._cls = 'err:' + e.kind
            r = out[1]
            return [(f'{e.kind} is reported as an error', z3.BoolVal(r.variant == 'Err'))]
        self._cls = 'ok'
        r = out[1]
        if r.variant != 'Ok':
            return [('a well-formed URL is accepted', FALSE)]
        p = r.fields[0]
        obs = [('base DN', eq_term(SliceV(self.cowb(p.fields['base'])), SliceV(ref['base']))),
               ('filter (default (objectClass=*))', eq_term(SliceV(self.cowb(p.fields['filter'])), SliceV(ref['filter']))),
               ('scope (default subtree)', z3.BoolVal(['Base', 'OneLevel', 'Subtree'].index(p.fields['scope'].variant) == ref['scope']))]
        got_attrs = [list(deref(a).b) for a in p.fields['attrs'].items]
        obs.append(('attribute list (default all attributes)', z3.BoolVal(len(got_attrs) == len(ref['attrs'])) if len(got_attrs) != len(ref['attrs']) else and_all([eq_term(SliceV(x), SliceV(y)) for x, y in zip(got_attrs, ref['attrs'])])))
        got = {}
        for e in p.fields['extensions'].items:
            e = deref(e); got[e.variant] = self.cowb(e.fields[0]) if e.fields else None
        obs.append(('set of recognised extensions (unknown non-critical ignored)', z3.BoolVal(set(got) == set(ref['exts']))))
        for k, v in ref['exts'].items():
            if k in got and v is not None:
                obs.append((f'value of extension {k}', eq_term(SliceV(got[k]), SliceV(v))))
        return obs

    def regions(self, inp, out):
        return [getattr(self, '_cls', '?')]

    def case(self, cinp):
        # format as a URL the url crate parses back to exactly this path/query (host present)
        p = bytes(ints(cinp['path'])).decode('latin1'); q = cinp['query']
        u = 'ldap://h' + p + ('?' + bytes(ints(q)).decode('latin1') if q is not None else '')
        return {'cmd': 'url_params', 'url': u, 'want_path': p, 'want_query': None if q is None else bytes(ints(q)).decode('latin1')}

    def native_outcome(self, cinp, j):
        if j['outcome'] == 'panic': return native_panic(j)
        v = j['value']
        cse = self.case(cinp)
        if v.get('r') == 'url-parse-error' or v.get('path') != cse['want_path'] or v.get('query') != cse['want_query']:
            raise RuntimeError(f'stub contract violated: the url crate does not return this path/query: {v.get("path")!r} {v.get("query")!r} vs {cse["want_path"]!r} {cse["want_query"]!r}')
        if v['r'] == 'err':
            return ('ret', Err(Opaque('LdapError', v.get('kind'))))
        exts = []
        for e in v['exts']:
            name = e.split('(')[0]
            if '(' in e:
                import ast
                val = ast.literal_eval(e[e.index('(') + 1:-1]) if e.endswith(')') else ''
                exts.append(EnumV('LdapUrlExt', name, [EnumV('Cow', 'Owned', [StrV(bvs(val.encode()))])]))
            else:
                exts.append(EnumV('LdapUrlExt', name, []))
        cow = lambda b: EnumV('Cow', 'Owned', [StrV(bvs(b))])
        params = StructV('LdapUrlParams', [('base', cow(v['base'])), ('attrs', VecV([StrV(bvs(a.encode())) for a in v['attrs']])),
                                           ('scope', EnumV('Scope', ['Base', 'OneLevel', 'Subtree'][v['scope']])), ('filter', cow(v['filter'])), ('extensions', SetV(exts))])
        return ('ret', Ok(params))

    def summary(self, out, model=None):
        if out[0] == 'panic': return {'panic': out[1].msg}
        r = out[1]
        if r.variant != 'Ok': return {'err': True}
        e = (lambda t: ev(model, t)) if model is not None else conc
        p = r.fields[0]
        s = lambda bs: bytes(e(b) for b in bs).decode('latin1')
        exts = {}
        for x in p.fields['extensions'].items:
            x = deref(x); exts[x.variant] = s(self.cowb(x.fields[0])) if x.fields else None
        return {'base': s(self.cowb(p.fields['base'])), 'attrs': [s(deref(a).b) for a in p.fields['attrs'].items], 'scope': p.fields['scope'].variant,
                'filter': s(self.cowb(p.fields['filter'])), 'exts': dict(sorted(exts.items()))}

    def in_summary(self, inp, model=None):
        e = (lambda t: ev(model, t)) if model is not None else conc
        return {'path': bytes(e(b) for b in inp['path']).decode('latin1'), 'query': None if inp['query'] is None else bytes(e(b) for b in inp['query']).decode('latin1')}

    def concrete_vectors(self, rng):
        urls = [('/dc=x', 'cn,sn?one?(a=b)?!bindname=x'), ('', None), ('/', '?'), ('/o=a%2cb', '??(a=%28)'), ('/x', '?base'), ('/x', '?bad'), ('/x', '???x-trace=1'), ('/x', '???!x-trace=1'),
                ('/x', '???!BindName=a%20b,X-BINDPW=s'), ('/x', '???1.3.6.1.4.1.1466.20037'), ('/%ff', None), ('/x', '??%ff'), ('//y', 'a'), ('/x', '???bindname=%ff'), ('/x', '???!'), ('/x', '???!=v,bindname=a,bindname=b')]
        return [{'path': bvs(p.encode()), 'query': None if q is None else bvs(q.encode())} for p, q in urls]


class Structured(UrlParams):
    """queries assembled from RFC 4516 fields: 0..2 attributes, scope word, filter, 0..2 extensions with
    symbolic criticality, recognised names in symbolic letter case, unknown names, symbolic values"""
    name = 'C20.structured_query'
    # 'name+' = the recognised name followed by one symbolic character, 'name-' = the name without its last character:
    # neither is the recognised extension (seed C20_4: prefix comparison instead of equality)
    EXT_NAMES = ['bindname', 'x-bindpw', '1.3.6.1.4.1.1466.20037', '1.3.6.1.4.1.10094.1.5.1', None, 'bindname+', 'x-bindpw+', 'bindname-', '1.3.6.1.4.1.1466.20037+']

    def __init__(self, ctx, vlen, full=False):
        Lane.__init__(self, ctx, vlen, full); self.vlen = vlen; self.k = 0; self.full = full

    def sym(self, excl=QUERY_EXCL + b'?,=!'):
        self.k += 1
        b = z3.BitVec(f's{self.k}', 8); self.c.assume(printable_except(b, excl)); return b

    def ext(self, i):
        c = self.c; S = ber.bstr
        out = S('!') if c.choose(2, f'crit{i}') else []
        names = self.EXT_NAMES if i == 0 else (self.EXT_NAMES[:5] if self.full else ['bindname', None])   # near-miss names on the first extension only
        nm = names[c.choose(len(names), f'ename{i}')]
        if nm is None:
            out += [self.sym(), self.sym()]
        else:
            near = nm[-1] if nm[-1] in '+-' else ''
            if near: nm = nm[:-1]
            if near == '-': nm = nm[:-1]
            for ch in nm.encode():
                if chr(ch).isalpha():
                    self.k += 1
                    up = z3.Bool(f'up{self.k}')
                    out.append(z3.If(up, bv(ch & 0xdf, 8), bv(ch, 8)))
                else:
                    out.append(bv(ch, 8))
            if near == '+':
                out.append(self.sym())
        if (self.full or i == 0) and c.choose(2, f'hasval{i}'):
            out += S('=')
            if i == 0 and c.choose(2, f'valpct{i}'):
                # a value with a percent-encoded octet in it (e.g. an encoded comma or '!'): any two hex digits
                out += [self.sym(QUERY_EXCL + b'?,%'), bv(0x25, 8), self.hexsym(), self.hexsym(), self.sym(QUERY_EXCL + b'?,%')]
            else:
                out += [self.sym(QUERY_EXCL + b'?,') for _ in range(self.vlen)]
        return out

    def hexsym(self):
        self.k += 1
        b = z3.BitVec(f'x{self.k}', 8)
        self.c.assume(z3.Or(z3.And(z3.UGE(b, 0x30), z3.ULE(b, 0x39)), z3.And(z3.UGE(b, 0x41), z3.ULE(b, 0x46)), z3.And(z3.UGE(b, 0x61), z3.ULE(b, 0x66))))
        return b

    def inputs(self):
        c = self.c; S = ber.bstr; self.k = 0
        path = S('/') + [self.sym(PATH_EXCL) for _ in range(c.choose(2, 'pl') if self.full else 1)]
        na = c.choose(3, 'nattrs') if self.full else 2 * c.choose(2, 'nattrs')
        attrs = []
        for i in range(na):
            if i: attrs += S(',')
            attrs.append(self.sym())
        sc = c.choose(4, 'scope') if self.full else 2 * c.choose(2, 'scope')
        scope = [S(''), S('base'), S('one'), S('sub')][sc]
        flt = [self.sym(QUERY_EXCL + b'?') for _ in range(3)] if (self.full and c.choose(2, 'hasf')) else []
        ne = c.choose(3, 'nexts')
        exts = []
        for i in range(ne):
            if i: exts += S(',')
            exts += self.ext(i)
        q = attrs + S('?') + scope + S('?') + flt + S('?') + exts
        return {'path': path, 'query': [z3.simplify(b) if z3.is_expr(b) else b for b in q]}


def body(chk):
    quick = chk.tier == 'quick'
    p = (3, 6) if quick else tier_param('C20', (4, 7))
    run_lane(chk, UrlParams, p, bounds={'path chars': f'<= {p[0]}', 'query chars': f'<= {p[1]} (absent or present)', 'alphabet': 'what the url crate returns for a non-special scheme: printable ASCII minus " # < > (and ? ` { } in the path)'},
             need_regions=('ok', 'err:InvalidScopeString', 'err:DecodingUTF8', 'err:UnrecognizedCriticalExtension'))
    if not quick:
        p2 = tier_param('C20B', (3, 8))
        run_lane(chk, UrlParams, p2, bounds={'path chars': f'<= {p2[0]}', 'query chars': f'<= {p2[1]} (absent or present)', 'alphabet': 'as above'}, selftest=False, need_regions=('ok',))
    run_lane(chk, Structured, ((1, False) if quick else tier_param('C20S', (2, False))), bounds={'attributes': '0..2', 'scope': 'omitted/base/one/sub', 'filter': 'omitted or 3 symbolic chars', 'extensions': '0..2: critical or not, bindname/x-bindpw (symbolic case)/StartTLS OID/credentials OID/unknown/a recognised name plus one symbolic character/a recognised name minus its last character, without value, with symbolic characters, or with a percent-encoded octet (any two hex digits) between two characters'},
             selftest=False, need_regions=('ok', 'err:UnrecognizedCriticalExtension'))
    chk.assumptions += [
        'url::Url::path()/query() are nondeterministic stubs constrained by the url crate\'s documented output alphabet for non-special schemes; every counterexample is replayed through the real url crate, and a path/query the crate does not reproduce makes the check inconclusive',
        'recognised extension names longer than the query bound (OIDs, bindname) are covered by the structured lane only up to the stated length',
        'a repeated extension keeps its first value (HashSet semantics of LdapUrlExt); more than one "?" after the extensions field stays part of it',
    ]


if __name__ == '__main__':
    run_check('C20', body)
