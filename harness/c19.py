"""C19 Control and extended-operation values round-trip through their codecs."""
import itertools
import z3
from .framework import *
from .lane import Lane, run_lane
from . import ber
from .c07 import TagVariants
from .c11 import ctrl_json
from mirsym.values import *
from mirsym.engine import TRUE, FALSE, clone_val
from mirsym.models import eq_term, and_all, or_all, utf8_valid

S = ber.bstr
FORMS = ['min', 1, 2, 4, 8]
OIDS = {'PagedResults': '1.2.840.113556.1.4.319', 'SyncRequest': '1.3.6.1.4.1.4203.1.9.1.1', 'PreRead': '1.3.6.1.1.13.1', 'PostRead': '1.3.6.1.1.13.2',
        'Assertion': '1.3.6.1.1.12', 'MatchedValues': '1.2.826.0.1.3344810.2.3', 'ProxyAuth': '2.16.840.1.113730.3.4.18', 'TxnSpec': '1.3.6.1.1.21.2',
        'ManageDsaIt': '2.16.840.1.113730.3.4.2', 'RelaxRules': '1.3.6.1.4.1.4203.666.5.12', 'WhoAmI': '1.3.6.1.4.1.4203.1.11.3', 'StartTxn': '1.3.6.1.1.21.1',
        'EndTxn': '1.3.6.1.1.21.3', 'PasswordModify': '1.3.6.1.4.1.4203.1.11.1', 'SyncInfo': '1.3.6.1.4.1.4203.1.9.1.4'}


def enc_all(t, form='min'):
    """reference-encode with the same length form on every TLV"""
    t = deref(t); pl = t.fields['payload']
    body = list(pl.fields[0].items) if pl.variant == 'P' else [b for k in pl.fields[0].items for b in enc_all(k, form)]
    return [ber.ident_octet(t.fields['class'], pl.variant == 'C', t.fields['id'])] + ber.len_octets(len(body), form) + body


def int_octets(c, v):
    return TagVariants.ref_int_octets(c, v)


def symb(name, n):
    return [z3.BitVec(f'{name}{i}', 8) for i in range(n)]


def ascii_str(c, name, n):
    bs = symb(name, n)
    for b in bs: c.assume(z3.ULT(b, 0x80))
    return bs


def strv(bs): return StrV(list(bs))
def opt(x): return Some(x) if x is not None else NONE()


# ---------------------------------------------------------------------------- request controls / exops

class Requests(Lane):
    name = 'C19.requests'
    KINDS = ['PagedResults', 'PagedResults!', 'SyncRequest', 'SyncRequest!', 'PreRead', 'PostRead', 'Assertion', 'MatchedValues', 'ProxyAuth', 'TxnSpec',
             'ManageDsaIt', 'ManageDsaIt!', 'RelaxRules', 'WhoAmI', 'StartTxn', 'PasswordModify', 'EndTxn']

    def __init__(self, ctx, blen):
        Lane.__init__(self, ctx, blen); self.blen = blen

    def inputs(self):
        c = self.c
        kind = self.KINDS[c.choose(len(self.KINDS), 'kind')]
        crit = kind.endswith('!'); k = kind.rstrip('!')
        d = {'kind': k, 'critical': crit}
        if k == 'PagedResults':
            size = z3.BitVec('size', 32); c.assume(size >= 0)
            d.update(size=size, cookie=symb('ck', c.choose(self.blen + 1, 'cklen')))
        elif k == 'SyncRequest':
            d.update(mode=[1, 3][c.choose(2, 'mode')], cookie=(symb('ck', c.choose(self.blen + 1, 'cklen')) if c.choose(2, 'hasck') else None), reload_hint=bool(c.choose(2, 'hint')))
        elif k in ('PreRead', 'PostRead'):
            d.update(attrs=[ascii_str(c, f'a{i}_', 1 + i) for i in range(c.choose(3, 'nattrs'))])
        elif k == 'Assertion':
            a = ascii_str(c, 'fa', 1); c.assume(z3.Or(z3.And(z3.UGE(a[0], 0x61), z3.ULE(a[0], 0x7a))))
            v = symb('fv', 1); c.assume(z3.And(z3.UGE(v[0], 0x30), z3.ULE(v[0], 0x39)))
            shape = c.choose(2, 'fshape')
            d.update(fa=a, fv=v, fshape=shape, filter=(S('(') + a + S('=') + v + S(')')) if shape == 0 else (S('(&(') + a + S('=*)(!(') + a + S('>=') + v + S(')))')))
        elif k == 'MatchedValues':
            a = ascii_str(c, 'fa', 1); c.assume(z3.And(z3.UGE(a[0], 0x61), z3.ULE(a[0], 0x7a)))
            v = symb('fv', 1); c.assume(z3.And(z3.UGE(v[0], 0x30), z3.ULE(v[0], 0x39)))
            shape = c.choose(2, 'fshape')
            d.update(fa=a, fv=v, fshape=shape, filter=(S('((') + a + S('=') + v + S('))')) if shape == 0 else (S('((') + a + S('=') + v + S(')(') + a + S('=*))')))
        elif k == 'ProxyAuth':
            az = symb('az', c.choose(self.blen + 1, 'azlen')); c.assume(utf8_valid(az)); d.update(authzid=az)
        elif k == 'TxnSpec':
            tx = symb('tx', c.choose(self.blen + 1, 'txlen')); c.assume(utf8_valid(tx)); d.update(txn_id=tx)
        elif k == 'PasswordModify':
            for f in ('user_id', 'old_pass', 'new_pass'):
                if c.choose(2, 'has_' + f):
                    b = symb(f[:2], 1 + (len(f) % 2)); c.assume(utf8_valid(b)); d[f] = b
                else:
                    d[f] = None
        elif k == 'EndTxn':
            tx = symb('tx', c.choose(self.blen + 1, 'txlen')); c.assume(utf8_valid(tx)); d.update(txn_id=tx, commit=bool(c.choose(2, 'commit')))
        return d

    def execute(self, d):
        c = self.c; k = d['kind']
        def fin(ctrl):
            if d['critical']:
                return c.run_fn('<RawControl as From<CriticalControl>>::from', [StructV('CriticalControl', [('control', ctrl)])])
            return c.run_fn(f'<RawControl as From<{ctrl.ty}>>::from', [ctrl])
        if k == 'PagedResults':
            return ('ctrl', fin(StructV('PagedResults', [('size', d['size']), ('cookie', VecV(d['cookie']))])))
        if k == 'SyncRequest':
            mode = EnumV('RefreshMode', 'RefreshOnly' if d['mode'] == 1 else 'RefreshAndPersist')
            return ('ctrl', fin(StructV('SyncRequest', [('mode', mode), ('cookie', opt(VecV(d['cookie'])) if d['cookie'] is not None else NONE()), ('reload_hint', z3.BoolVal(d['reload_hint']))])))
        if k in ('PreRead', 'PostRead'):
            return ('ctrl', c.run_fn(f'{k}::new', [VecV([strv(a) for a in d['attrs']])]))
        if k in ('Assertion', 'MatchedValues'):
            return ('ctrl', c.run_fn(f'{k}::new', [strv(d['filter'])]))
        if k == 'ProxyAuth':
            return ('ctrl', fin(StructV('ProxyAuth', [('authzid', strv(d['authzid']))])))
        if k == 'TxnSpec':
            return ('ctrl', fin(StructV('TxnSpec', [('txn_id', strv(d['txn_id']))])))
        if k in ('ManageDsaIt', 'RelaxRules'):
            return ('ctrl', fin(StructV(k, [])))
        # extended operations: Exop, then the request components construct_exop() emits
        if k in ('WhoAmI', 'StartTxn'):
            ex = c.run_fn(f'<Exop as From<{k}>>::from', [StructV(k, [])])
        elif k == 'PasswordModify':
            ex = c.run_fn('<Exop as From<PasswordModify>>::from', [StructV('PasswordModify', [(f, opt(strv(d[f])) if d[f] is not None else NONE()) for f in ('user_id', 'old_pass', 'new_pass')])])
        else:
            ex = c.run_fn('<Exop as From<EndTxn>>::from', [StructV('EndTxn', [('txn_id', strv(d['txn_id'])), ('commit', z3.BoolVal(d['commit']))])])
        tags = c.run_fn('construct_exop', [clone_val(ex)])
        trees = [c.run_fn('<Tag as ASNTag>::into_structure', [t]) for t in tags.items]
        return ('exop', ex, trees)

    def reference(self, d):
        """-> (oid, crit, value bytes or None) prescribed by the defining RFC"""
        c = self.c; k = d['kind']
        T = ber.prim; C = ber.cons
        if k == 'PagedResults':      # RFC 2696
            return OIDS[k], d['critical'], enc_all(C(0, 16, [T(0, 2, int_octets(c, z3.SignExt(32, d['size']))), T(0, 4, d['cookie'])]))
        if k == 'SyncRequest':       # RFC 4533
            parts = [T(0, 10, [bv(d['mode'], 8)])]
            if d['cookie'] is not None: parts.append(T(0, 4, d['cookie']))
            if d['reload_hint']: parts.append(T(0, 1, [bv(0xFF, 8)]))
            return OIDS[k], d['critical'], enc_all(C(0, 16, parts))
        if k in ('PreRead', 'PostRead'):   # RFC 4527: AttributeSelection
            return OIDS[k], False, enc_all(C(0, 16, [T(0, 4, a) for a in d['attrs']]))
        if k == 'Assertion':         # RFC 4528: the value is a Filter
            a, v = d['fa'], d['fv']
            eqf = C(2, 3, [T(0, 4, a), T(0, 4, v)])
            f = eqf if d['fshape'] == 0 else C(2, 0, [T(2, 7, a), C(2, 2, [C(2, 5, [T(0, 4, a), T(0, 4, v)])])])
            return OIDS[k], False, enc_all(f)
        if k == 'MatchedValues':     # RFC 3876: SEQUENCE OF SimpleFilterItem
            a, v = d['fa'], d['fv']
            items = [C(2, 3, [T(0, 4, a), T(0, 4, v)])] + ([T(2, 7, a)] if d['fshape'] == 1 else [])
            return OIDS[k], False, enc_all(C(0, 16, items))
        if k == 'ProxyAuth': return OIDS[k], True, list(d['authzid'])       # RFC 4370: critical, value = authzId
        if k == 'TxnSpec': return OIDS[k], True, list(d['txn_id'])          # RFC 5805: critical, value = identifier
        if k in ('ManageDsaIt', 'RelaxRules'): return OIDS[k], d['critical'], None
        if k in ('WhoAmI', 'StartTxn'): return OIDS[k], None, None
        if k == 'PasswordModify':    # RFC 3062
            parts = [T(2, i, d[f]) for i, f in enumerate(('user_id', 'old_pass', 'new_pass')) if d[f] is not None]
            return OIDS[k], None, (enc_all(C(0, 16, parts)) if parts else None)
        if k == 'EndTxn':            # RFC 5805: commit BOOLEAN DEFAULT TRUE, identifier
            parts = ([] if d['commit'] else [T(0, 1, [bv(0, 8)])]) + [T(0, 4, d['txn_id'])]
            return OIDS[k], None, enc_all(C(0, 16, parts))

    def oracle(self, d, out):
        if out[0] == 'panic':
            return [('building a request control/exop never panics', FALSE)]
        oid, crit, val = self.reference(d)
        o = out[1]; obs = []
        if o[0] == 'ctrl':
            rc = o[1]
            obs.append(('control OID', eq_term(rc.fields['ctype'], strv(S(oid)))))
            obs.append(('criticality', rc.fields['crit'] == z3.BoolVal(crit)))
            obs.append(('control value is the BER value the RFC prescribes', eq_term(rc.fields['val'], Some(VecV(val)) if val is not None else NONE())))
        else:
            ex, trees = o[1], o[2]
            obs.append(('extended request name', eq_term(ex.fields['name'], Some(strv(S(oid))))))
            obs.append(('extended request value is the BER value the RFC prescribes', eq_term(ex.fields['val'], Some(VecV(val)) if val is not None else NONE())))
            want = [ber.prim(2, 0, S(oid))] + ([ber.prim(2, 1, val)] if val is not None else [])
            obs.append(('ExtendedRequest components: [0] requestName, [1] requestValue only when present',
                        z3.BoolVal(len(trees) == len(want)) if len(trees) != len(want) else and_all([eq_term(a, b) for a, b in zip(trees, want)])))
        return obs

    def case(self, cd):
        k = cd['kind']
        j = {'cmd': 'exop:req' if k in ('WhoAmI', 'StartTxn', 'PasswordModify', 'EndTxn') else 'ctrl:req', 'kind': k, 'critical': cd['critical']}
        for f, v in cd.items():
            if f in ('kind', 'critical', 'fa', 'fv', 'fshape'): continue
            if f == 'size': j[f] = conc(v) - (1 << 32) if conc(v) >> 31 else conc(v)
            elif f == 'attrs': j[f] = [ints(a) for a in v]
            elif isinstance(v, list): j[f] = ints(v)
            else: j[f] = v
        return j

    def native_outcome(self, cd, j):
        if j['outcome'] == 'panic': return native_panic(j)
        v = j['value']
        if 'oid' in v:
            rc = StructV('RawControl', [('ctype', strv(bvs(v['oid']))), ('crit', z3.BoolVal(v['crit'])), ('val', Some(VecV(bvs(v['val']))) if v['val'] is not None else NONE())])
            return ('ret', ('ctrl', rc))
        ex = StructV('Exop', [('name', Some(strv(bvs(v['name']))) if v['name'] is not None else NONE()), ('val', Some(VecV(bvs(v['val']))) if v['val'] is not None else NONE())])
        return ('ret', ('exop', ex, [tree_val(t) for t in v['tags']]))

    def summary(self, out, model=None):
        if out[0] == 'panic': return {'panic': out[1].msg}
        e = (lambda t: ev(model, t)) if model is not None else (lambda t: z3.is_true(t) if z3.is_bool(t) else conc(t))
        o = out[1]
        ob = lambda x: None if x.variant == 'None' else [e(b) for b in (x.fields[0].b if isinstance(x.fields[0], StrV) else x.fields[0].items)]
        if o[0] == 'ctrl':
            rc = o[1]; return {'oid': bytes(e(b) for b in rc.fields['ctype'].b).decode('latin1'), 'crit': bool(e(rc.fields['crit'])), 'val': ob(rc.fields['val'])}
        return {'name': ob(o[1].fields['name']), 'val': ob(o[1].fields['val']), 'components': [tree_json(t, model) for t in o[2]]}

    def in_summary(self, d, model=None):
        e = (lambda t: ev(model, t)) if model is not None else conc
        out = {}
        for k, v in d.items():
            if isinstance(v, list) and v and isinstance(v[0], list): out[k] = [[e(b) for b in x] for x in v]
            elif isinstance(v, list): out[k] = [e(b) for b in v]
            elif z3.is_expr(v): out[k] = e(v)
            else: out[k] = v
        return out

    def regions(self, d, out):
        return [d['kind'] + ('!' if d['critical'] else '')]

    def key(self, obname, out):
        return Lane.key(self, obname, out) + ':' + getattr(self, '_kind', '')

    def run(self):
        r = Lane.run(self); self._kind = r[0]['kind']; return r

    def concrete_vectors(self, rng):
        B = lambda s: bvs(s.encode() if isinstance(s, str) else s)
        return [{'kind': 'PagedResults', 'critical': False, 'size': z3.BitVecVal(500, 32), 'cookie': B(b'\x01\x02')},
                {'kind': 'PagedResults', 'critical': True, 'size': z3.BitVecVal(0, 32), 'cookie': []},
                {'kind': 'SyncRequest', 'critical': False, 'mode': 3, 'cookie': None, 'reload_hint': True},
                {'kind': 'SyncRequest', 'critical': True, 'mode': 1, 'cookie': B('ck'), 'reload_hint': False},
                {'kind': 'PreRead', 'critical': False, 'attrs': [B('cn'), B('sn')]}, {'kind': 'PostRead', 'critical': False, 'attrs': []},
                {'kind': 'ProxyAuth', 'critical': False, 'authzid': B('dn:cn=x')}, {'kind': 'TxnSpec', 'critical': False, 'txn_id': B('t1')},
                {'kind': 'ManageDsaIt', 'critical': True}, {'kind': 'RelaxRules', 'critical': False}, {'kind': 'WhoAmI', 'critical': False}, {'kind': 'StartTxn', 'critical': False},
                {'kind': 'PasswordModify', 'critical': False, 'user_id': B('u'), 'old_pass': None, 'new_pass': B('np')},
                {'kind': 'PasswordModify', 'critical': False, 'user_id': None, 'old_pass': None, 'new_pass': None},
                {'kind': 'EndTxn', 'critical': False, 'txn_id': B('t'), 'commit': False}, {'kind': 'EndTxn', 'critical': False, 'txn_id': B(''), 'commit': True}]


# ---------------------------------------------------------------------------- response values

class Responses(Lane):
    name = 'C19.responses'
    KINDS = ['PagedResults', 'SyncState', 'SyncDone', 'SyncInfo', 'ReadEntry', 'WhoAmI', 'StartTxn', 'PasswordModify']

    def __init__(self, ctx, blen):
        Lane.__init__(self, ctx, blen); self.blen = blen

    def inputs(self):
        c = self.c; T = ber.prim; C = ber.cons
        k = self.KINDS[c.choose(len(self.KINDS), 'kind')]
        form = FORMS[c.choose(len(FORMS), 'form')]
        d = {'kind': k, 'form': form}
        ck = lambda: (symb('ck', c.choose(self.blen + 1, 'cklen')) if c.choose(2, 'hasck') else None)
        if k == 'PagedResults':
            n = 1 + c.choose(4, 'szlen'); sz = symb('sz', n); c.assume(z3.ULT(sz[0], 0x80))
            d.update(size_octets=sz, cookie=symb('ck', c.choose(self.blen + 1, 'cklen')))
            d['val'] = enc_all(C(0, 16, [T(0, 2, sz), T(0, 4, d['cookie'])]), form)
        elif k == 'SyncState':
            st = c.choose(4, 'state'); d.update(state=st, uuid=symb('uu', 2), cookie=ck())
            d['val'] = enc_all(C(0, 16, [T(0, 10, [bv(st, 8)]), T(0, 4, d['uuid'])] + ([T(0, 4, d['cookie'])] if d['cookie'] is not None else [])), form)
        elif k == 'SyncDone':
            d.update(cookie=ck(), flag=(z3.BitVec('flagb', 8) if c.choose(2, 'hasflag') else None))
            d['val'] = enc_all(C(0, 16, ([T(0, 4, d['cookie'])] if d['cookie'] is not None else []) + ([T(0, 1, [d['flag']])] if d['flag'] is not None else [])), form)
        elif k == 'SyncInfo':
            alt = c.choose(4, 'alt'); d['alt'] = alt
            if alt == 0:
                d['cookie'] = symb('ck', c.choose(self.blen + 1, 'cklen')); inner = T(2, 0, d['cookie'])
            else:
                d.update(cookie=ck(), flag=(z3.BitVec('flagb', 8) if c.choose(2, 'hasflag') else None))
                parts = ([T(0, 4, d['cookie'])] if d['cookie'] is not None else []) + ([T(0, 1, [d['flag']])] if d['flag'] is not None else [])
                if alt == 3:
                    d['uuids'] = [symb(f'u{i}_', 2) for i in range(c.choose(3, 'nuuids'))]
                    parts.append(C(0, 17, [T(0, 4, u) for u in d['uuids']]))
                inner = C(2, alt, parts)
            d['val'] = enc_all(inner, form)
            d['entry'] = C(1, 25, [T(2, 0, S(OIDS['SyncInfo'])), T(2, 1, d['val'])])
        elif k == 'ReadEntry':
            v = symb('rv', 2); nm = ascii_str(c, 'rn', 1)
            d.update(name=nm, value=v, dn=S('cn=x'))
            d['val'] = enc_all(C(1, 4, [T(0, 4, d['dn']), C(0, 16, [C(0, 16, [T(0, 4, nm), C(0, 17, [T(0, 4, v)])])])]), form)
        elif k in ('WhoAmI', 'StartTxn'):
            s_ = symb('id', c.choose(self.blen + 1, 'idlen')); c.assume(utf8_valid(s_)); d.update(text=s_, val=list(s_))
        elif k == 'PasswordModify':
            s_ = symb('gp', c.choose(self.blen + 1, 'gplen')); c.assume(utf8_valid(s_)); d.update(text=s_)
            d['val'] = enc_all(C(0, 16, [T(2, 0, s_)]), form)
        return d

    def execute(self, d):
        c = self.c; k = d['kind']
        val = SliceV(list(d['val']))
        if k == 'PagedResults': return c.run_fn('<PagedResults as ControlParser>::parse', [val])
        if k == 'SyncState': return c.run_fn('<SyncState as ControlParser>::parse', [val])
        if k == 'SyncDone': return c.run_fn('<SyncDone as ControlParser>::parse', [val])
        if k == 'SyncInfo': return c.run_fn('parse_syncinfo', [StructV('ResultEntry', [(0, clone_val(d['entry'])), (1, VecV([]))])])
        if k == 'ReadEntry': return c.run_fn('<ReadEntryResp as ControlParser>::parse', [val])
        if k == 'WhoAmI': return c.run_fn('<WhoAmIResp as ExopParser>::parse', [val])
        if k == 'StartTxn': return c.run_fn('<StartTxnResp as ExopParser>::parse', [val])
        if k == 'PasswordModify': return c.run_fn('<PasswordModifyResp as ExopParser>::parse', [val])

    def oracle(self, d, out):
        if out[0] == 'panic':
            return [('a well-formed response value never panics its parser', FALSE)]
        r = out[1]; k = d['kind']; obs = []
        ob = lambda x: Some(VecV(x)) if x is not None else NONE()
        if k == 'PagedResults':
            v = z3.BitVecVal(0, 32)
            for b in d['size_octets']: v = (v << 8) | z3.ZeroExt(24, b)
            obs += [('size', r.fields['size'] == v), ('cookie', eq_term(r.fields['cookie'], VecV(d['cookie'])))]
        elif k == 'SyncState':
            obs += [('state', z3.BoolVal(r.fields['state'].variant == ['Present', 'Add', 'Modify', 'Delete'][d['state']])),
                    ('entryUUID', eq_term(r.fields['entry_uuid'], VecV(d['uuid']))), ('cookie (absent = none)', eq_term(r.fields['cookie'], ob(d['cookie'])))]
        elif k == 'SyncDone':
            obs += [('cookie (absent = none)', eq_term(r.fields['cookie'], ob(d['cookie']))),
                    ('refreshDeletes DEFAULT FALSE', r.fields['refresh_deletes'] == ((d['flag'] != 0) if d['flag'] is not None else FALSE))]
        elif k == 'SyncInfo':
            alt = d['alt']
            want = ['NewCookie', 'RefreshDelete', 'RefreshPresent', 'SyncIdSet'][alt]
            obs.append(('alternative', z3.BoolVal(r.variant == want)))
            if r.variant == want:
                if alt == 0:
                    obs.append(('newcookie', eq_term(r.fields[0], VecV(d['cookie']))))
                else:
                    default = alt != 3
                    obs.append(('cookie (absent = none)', eq_term(r.fields[0], ob(d['cookie']))))
                    obs.append(('flag with its DEFAULT (refreshDone TRUE / refreshDeletes FALSE)', r.fields[1] == ((d['flag'] != 0) if d['flag'] is not None else z3.BoolVal(default))))
                    if alt == 3:
                        got = [x.items for x in r.fields[2].items]; us = d['uuids']
                        # SET OF: as a set of values
                        inc1 = and_all([or_all([and_all([a == b for a, b in zip(g, u)]) for u in us]) for g in got]) if us or not got else FALSE
                        inc2 = and_all([or_all([and_all([a == b for a, b in zip(g, u)]) for g in got]) for u in us]) if got or not us else FALSE
                        obs.append(('syncUUIDs as a set', z3.And(inc1, inc2)))
        elif k == 'ReadEntry':
            allv = utf8_valid(d['value'])
            text = r.fields['attrs'].items; bins = r.fields['bin_attrs'].items
            obs.append(('exactly one attribute', z3.BoolVal(len(text) + len(bins) == 1)))
            if len(text) == 1:
                obs += [('text iff UTF-8', allv), ('name', eq_term(text[0][0], strv(d['name']))), ('value', eq_term(text[0][1], VecV([strv(d['value'])])))]
            elif len(bins) == 1:
                obs += [('binary iff not UTF-8', z3.Not(allv)), ('name', eq_term(bins[0][0], strv(d['name']))), ('value', eq_term(bins[0][1], VecV([VecV(d['value'])])))]
        elif k in ('WhoAmI', 'StartTxn'):
            obs.append(('text', eq_term(r.nth(0), strv(d['text']))))
        elif k == 'PasswordModify':
            obs.append(('generated password', eq_term(r.fields['gen_pass'], strv(d['text']))))
        return obs

    def case(self, cd):
        j = {'cmd': 'ctrl:resp', 'kind': cd['kind'], 'val': ints(cd['val'])}
        if cd['kind'] == 'SyncInfo': j['entry'] = tree_json(cd['entry'])
        return j

    def native_outcome(self, cd, j):
        if j['outcome'] == 'panic': return native_panic(j)
        v = j['value']; k = cd['kind']
        ob = lambda x: Some(VecV(bvs(x))) if x is not None else NONE()
        if k == 'PagedResults': return ('ret', StructV('PagedResults', [('size', z3.BitVecVal(v['size'], 32)), ('cookie', VecV(bvs(v['cookie'])))]))
        if k == 'SyncState': return ('ret', StructV('SyncState', [('state', EnumV('EntryState', v['state'])), ('entry_uuid', VecV(bvs(v['uuid']))), ('cookie', ob(v['cookie']))]))
        if k == 'SyncDone': return ('ret', StructV('SyncDone', [('cookie', ob(v['cookie'])), ('refresh_deletes', z3.BoolVal(v['refresh_deletes']))]))
        if k == 'SyncInfo':
            if v['k'] == 'NewCookie': return ('ret', EnumV('SyncInfo', 'NewCookie', [VecV(bvs(v['cookie']))]))
            f = [ob(v['cookie']), z3.BoolVal(v['flag'])] + ([SetV([VecV(bvs(u)) for u in v['uuids']])] if v['k'] == 'SyncIdSet' else [])
            return ('ret', EnumV('SyncInfo', v['k'], f))
        if k == 'ReadEntry':
            mk = lambda lst, f: MapV([(strv(bvs(a['name'])), VecV([f(x) for x in a['vals']])) for a in lst])
            return ('ret', StructV('ReadEntryResp', [('attrs', mk(v['attrs'], lambda x: strv(bvs(x)))), ('bin_attrs', mk(v['bin_attrs'], lambda x: VecV(bvs(x))))]))
        if k == 'WhoAmI': return ('ret', StructV('WhoAmIResp', [('authzid', strv(bvs(v['authzid'])))]))
        if k == 'StartTxn': return ('ret', StructV('StartTxnResp', [('txn_id', strv(bvs(v['txn_id'])))]))
        return ('ret', StructV('PasswordModifyResp', [('gen_pass', strv(bvs(v['gen_pass'])))]))

    def summary(self, out, model=None):
        if out[0] == 'panic': return {'panic': out[1].msg}
        return repr(conc_val(model, out[1]) if model is not None else out[1])[:300]

    def in_summary(self, d, model=None):
        e = (lambda t: ev(model, t)) if model is not None else conc
        return {'kind': d['kind'], 'form': d['form'], 'val': [e(b) for b in d['val']]}

    def regions(self, d, out):
        return [d['kind'] + (f":{d['alt']}" if d['kind'] == 'SyncInfo' else '')]

    def key(self, obname, out):
        return Lane.key(self, obname, out) + ':' + getattr(self, '_kind', '')

    def run(self):
        r = Lane.run(self); self._kind = r[0]['kind']; return r


# ---------------------------------------------------------------------------- control list through the envelope

class Envelope(Lane):
    """parse_controls(build_tag*(list)) == list: absent criticality = false, absent value = none,
    known-OID tagging equals the CONTROLS table"""
    name = 'C19.control_list_envelope'
    KNOWN = {'1.2.840.113556.1.4.319': 'PagedResults', '1.3.6.1.1.13.2': 'PostReadResp', '1.3.6.1.1.13.1': 'PreReadResp', '1.3.6.1.4.1.4203.1.9.1.3': 'SyncDone',
             '1.3.6.1.4.1.4203.1.9.1.2': 'SyncState', '2.16.840.1.113730.3.4.2': 'ManageDsaIt', '1.2.826.0.1.3344810.2.3': 'MatchedValues'}

    def __init__(self, ctx, maxn, blen):
        Lane.__init__(self, ctx, maxn, blen); self.maxn = maxn; self.blen = blen

    def inputs(self):
        c = self.c
        n = c.choose(self.maxn + 1, 'n')
        known = list(self.KNOWN)
        cs = []
        for i in range(n):
            ko = c.choose(3, f'oidkind{i}')
            if ko == 0:
                oid = symb(f'oid{i}_', 1 + i); c.assume(utf8_valid(oid)); kn = None
            else:
                o = known[(i * 3 + ko) % len(known)]; oid = S(o); kn = self.KNOWN[o]
            cs.append({'oid': oid, 'crit': z3.Bool(f'crit{i}'), 'val': (symb(f'v{i}_', c.choose(self.blen + 1, f'vl{i}')) if c.choose(2, f'hasv{i}') else None), 'known': kn})
        return {'ctrls': cs}

    def execute(self, d):
        c = self.c
        trees = []
        for ct in d['ctrls']:
            rc = StructV('RawControl', [('ctype', strv(ct['oid'])), ('crit', ct['crit']), ('val', Some(VecV(ct['val'])) if ct['val'] is not None else NONE())])
            trees.append(c.run_fn('build_tag', [rc]))
        wrapped = ber.cons(2, 0, trees)
        r = c.run_fn('parse_controls', [clone_val(wrapped)])
        return {'trees': trees, 'parsed': r}

    def oracle(self, d, out):
        if out[0] == 'panic': return [('no panic', FALSE)]
        trees, r = out[1]['trees'], out[1]['parsed']
        obs = []
        for t, ct in zip(trees, d['ctrls']):
            # RFC 4511 4.1.11: criticality only when TRUE (DEFAULT FALSE), value only when present
            c = self.c
            on_true = ber.cons(0, 16, [ber.prim(0, 4, ct['oid']), ber.prim(0, 1, [bv(0xFF, 8)])] + ([ber.prim(0, 4, ct['val'])] if ct['val'] is not None else []))
            on_false = ber.cons(0, 16, [ber.prim(0, 4, ct['oid'])] + ([ber.prim(0, 4, ct['val'])] if ct['val'] is not None else []))
            obs.append(('Control ::= SEQUENCE { OID, criticality only when true, value only when present }', z3.If(ct['crit'], eq_term(t, on_true), eq_term(t, on_false))))
        if r.variant != 'Some':
            return obs + [('the control list is read back', FALSE)]
        lst = r.fields[0].items
        obs.append(('same number of controls', z3.BoolVal(len(lst) == len(d['ctrls']))))
        for got, ct in zip(lst, d['ctrls']):
            raw = got.nth(1); kn = got.nth(0)
            obs += [('OID', eq_term(raw.fields['ctype'], strv(ct['oid']))), ('criticality (absent = false)', raw.fields['crit'] == ct['crit']),
                    ('value (absent = none)', eq_term(raw.fields['val'], Some(VecV(ct['val'])) if ct['val'] is not None else NONE()))]
            if ct['known'] is not None:
                obs.append(('known-OID tagging', z3.BoolVal(kn.variant == 'Some' and kn.fields[0].variant == ct['known'])))
        return obs

    def case(self, cd):
        return {'cmd': 'ctrl:envelope', 'ctrls': [{'oid': ints(ct['oid']), 'crit': bool(z3.is_true(ct['crit'])), 'val': None if ct['val'] is None else ints(ct['val'])} for ct in cd['ctrls']]}

    def native_outcome(self, cd, j):
        if j['outcome'] == 'panic': return native_panic(j)
        v = j['value']
        # recover the per-control trees from the wire: message = SEQ { id, op, [0] controls }
        msg, _ = ber.py_decode(v['wire'])
        ctl = [tree_val(t) for t in msg['c'][2]['c']] if len(msg['c']) > 2 else []
        if v['ctrls'] is None:
            return ('ret', {'trees': ctl, 'parsed': NONE()})
        lst = []
        for cj in v['ctrls']:
            known = NONE() if cj['known'] is None else Some(EnumV('ControlType', cj['known']))
            raw = StructV('RawControl', [('ctype', strv(bvs(cj['oid']))), ('crit', z3.BoolVal(cj['crit'])), ('val', NONE() if cj['val'] is None else Some(VecV(bvs(cj['val']))))])
            lst.append(StructV('Control', [(0, known), (1, raw)]))
        return ('ret', {'trees': ctl, 'parsed': Some(VecV(lst))})

    def summary(self, out, model=None):
        if out[0] == 'panic': return {'panic': out[1].msg}
        e = (lambda t: ev(model, t)) if model is not None else (lambda t: z3.is_true(t) if z3.is_bool(t) else conc(t))
        r = out[1]['parsed']
        return {'trees': [tree_json(t, model) for t in out[1]['trees']], 'parsed': None if r.variant != 'Some' else [ctrl_json(x, e) for x in r.fields[0].items]}

    def in_summary(self, d, model=None):
        e = (lambda t: ev(model, t)) if model is not None else (lambda t: z3.is_true(t) if z3.is_bool(t) else conc(t))
        return [{'oid': [e(b) for b in ct['oid']], 'crit': bool(e(ct['crit'])), 'val': None if ct['val'] is None else [e(b) for b in ct['val']]} for ct in d['ctrls']]

    def regions(self, d, out):
        return [f'n={len(d["ctrls"])}']


def body(chk):
    quick = chk.tier == 'quick'
    bl, ncl = (2, 2) if quick else tier_param('C19', (4, 2))
    run_lane(chk, Requests, (bl,), bounds={'cookies / identifiers': f'<= {bl} symbolic bytes', 'page size': 'all of 0..2^31-1', 'attribute lists': '<= 2 names', 'filters (Assertion, MatchedValues)': '2 templates with symbolic attribute/value characters',
                                          'PasswordModify': 'all 8 presence combinations'}, need_regions=tuple(Requests.KINDS))
    run_lane(chk, Responses, (bl,), bounds={'cookies / identifiers': f'<= {bl} symbolic bytes', 'length forms': FORMS, 'SyncInfo': 'all 4 alternatives, optional cookie/flag, <= 2 UUIDs'}, selftest=False,
             need_regions=('PagedResults', 'SyncState', 'SyncDone', 'SyncInfo:0', 'SyncInfo:1', 'SyncInfo:2', 'SyncInfo:3', 'ReadEntry', 'WhoAmI', 'StartTxn', 'PasswordModify'))
    n = ncl
    run_lane(chk, Envelope, (n, bl), bounds={'controls per list': f'0..{n}', 'OID': 'symbolic UTF-8 or one of the 7 recognised OIDs', 'criticality': 'symbolic', 'value': f'absent or <= {bl} bytes'}, selftest=False,
             need_regions=tuple(f'n={i}' for i in range(n + 1)))
    if not quick:
        n3 = tier_param('C19E', (3, 1))
        run_lane(chk, Envelope, n3, bounds={'controls per list': f'0..{n3[0]}', 'OID': 'symbolic UTF-8 or one of the 7 recognised OIDs', 'criticality': 'symbolic', 'value': f'absent or <= {n3[1]} bytes'}, selftest=False,
                 need_regions=(f'n={n3[0]}',))
    chk.assumptions += [
        'request controls: the expected OID / criticality / BER value is written here from RFC 2696, 4533, 4527, 4528, 3876, 4370, 5805, 3296, draft relax, 4532, 3062',
        'response values are well-formed by construction (malformed ones panic by documented design and are outside this property)',
        'EndTxn response decoding is not in the property\'s list and is not checked',
        'one length form per response value (all TLVs alike), chosen among short/81/82/84/88',
    ]


if __name__ == '__main__':
    run_check('C19', body)
