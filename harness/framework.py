"""Common driver for all checks: build, explore (in parallel), query, replay natively, classify
against known findings, write evidence, exit code.

Exit codes: 0 held (possibly KNOWN-FINDING lines), 1 VIOLATION (replayed, not listed), 2 inconclusive."""
import json
import os
import random
import subprocess
import sys
import time
import traceback
import multiprocessing as mp
import z3

VERIF = os.path.dirname(os.path.dirname(os.path.abspath(__file__)))
sys.path.insert(0, VERIF)
from mirsym.values import *          # noqa: E402
from mirsym import build             # noqa: E402
from mirsym.engine import Ctx        # noqa: E402

WORK = os.environ.get('VERIF_WORK', os.path.join(VERIF, '.work'))
REPLAY_DIR = os.environ.get('VERIF_REPLAY_DIR', os.path.join(VERIF, 'replay'))
KANI_DIR = os.environ.get('VERIF_KANI_DIR', os.path.join(VERIF, 'kani'))
EVIDENCE_DIR = os.environ.get('VERIF_EVIDENCE_DIR', os.path.join(VERIF, 'evidence'))
REPO = build.REPO
NPROC = int(os.environ.get('VERIF_JOBS', '14'))


class Inconclusive(Exception):
    pass


# ------------------------------------------------------------------------------------------
# native replay binary

_replay_built = {}


def tier_param(name, default):
    """bound of a lane; VERIF_PARAM_<name> (JSON) overrides it for timing experiments only"""
    v = os.environ.get('VERIF_PARAM_' + name)
    if v is None: return default
    r = json.loads(v)
    return tuple(r) if isinstance(default, tuple) else r


def build_replay(profile='dev'):
    if profile in _replay_built:
        return _replay_built[profile]
    os.makedirs(WORK, exist_ok=True)
    import fcntl
    with open(os.path.join(WORK, '.replay.lock'), 'w') as lk:
        fcntl.flock(lk, fcntl.LOCK_EX)
        args = ['cargo', 'build', '--offline', '--target-dir', os.path.join(WORK, 'replay-target')]
        if profile == 'release':
            args.append('--release')
        env = dict(os.environ, CARGO_NET_OFFLINE='true')
        p = subprocess.run(args, cwd=REPLAY_DIR, env=env, stdout=subprocess.PIPE, stderr=subprocess.STDOUT, text=True)
        if p.returncode != 0:
            raise Inconclusive('replay binary does not build:\n' + p.stdout[-3000:])
    b = os.path.join(WORK, 'replay-target', 'debug' if profile == 'dev' else 'release', 'verif_replay')
    _replay_built[profile] = b
    return b


def native(cases, profile='dev', timeout=120):
    """run a list of JSON cases through the real code; returns list of outcomes"""
    b = build_replay(profile)
    p = subprocess.run([b, '-'], input=json.dumps(cases), stdout=subprocess.PIPE, stderr=subprocess.PIPE, text=True, timeout=timeout)
    if p.returncode != 0:
        # a crash (abort / stack overflow) of the whole batch: run one by one
        out = []
        for cse in cases:
            q = subprocess.run([b, '-'], input=json.dumps(cse), stdout=subprocess.PIPE, stderr=subprocess.PIPE, text=True, timeout=timeout)
            if q.returncode != 0:
                out.append({'outcome': 'crash', 'signal': q.returncode, 'stderr': q.stderr[-300:]})
            else:
                out.append(json.loads(q.stdout))
        return out
    return json.loads(p.stdout)


# ------------------------------------------------------------------------------------------
# known findings

def load_known():
    known = []; fixed = []
    p = os.path.join(VERIF, 'known_findings.txt')
    if os.path.exists(p):
        for l in open(p):
            l = l.strip()
            if l.startswith('finding:'):
                d = {}
                body = l[len('finding:'):].strip()
                head, _, text = body.partition(' -- ')
                for kv in head.split():
                    if '=' in kv:
                        k, v = kv.split('=', 1); d[k] = v
                d['text'] = text
                known.append(d)
            elif l.startswith('fixed:'):
                fixed.append(l)
    return known, fixed


# ------------------------------------------------------------------------------------------
# evaluation helpers

def ev(model, t):
    """concrete python value of a z3 term under a model"""
    if isinstance(t, bool): return t
    if isinstance(t, int): return t
    r = model.eval(t, model_completion=True)
    if z3.is_bool(r): return z3.is_true(r)
    return r.as_long()


def conc_val(model, v):
    """concretise a modelled value (replace every z3 leaf by its model value, as a z3 constant)"""
    v = deref(v)
    if z3.is_expr(v):
        r = model.eval(v, model_completion=True)
        return r
    if isinstance(v, EnumV): return EnumV(v.ty, v.variant, [conc_val(model, x) for x in v.fields])
    if isinstance(v, StructV): return StructV(v.ty, [(k, conc_val(model, x)) for k, x in v.fields.items()])
    if isinstance(v, Tup): return Tup([conc_val(model, x) for x in v])
    if isinstance(v, ArrV): return ArrV([conc_val(model, x) for x in v])
    if isinstance(v, VecV): return VecV([conc_val(model, x) for x in v.items])
    if isinstance(v, StrV): return StrV([conc_val(model, x) for x in v.b])
    if isinstance(v, SliceV): return SliceV([conc_val(model, x) for x in v.items()])
    if isinstance(v, list): return [conc_val(model, x) for x in v]
    if isinstance(v, dict): return {k: conc_val(model, x) for k, x in v.items()}
    if isinstance(v, tuple): return tuple(conc_val(model, x) for x in v)
    return v


def native_panic(j):
    """native panic outcome -> PanicExc whose `fn` is the source file of the panic site"""
    if j.get('file') in ('main.rs', 'asyncr.rs'):
        raise RuntimeError('the replay binary itself failed on this case (harness defect, not a finding): ' + j.get('msg', ''))
    return ('panic', PanicExc(j.get('file') or 'native', 'panic', j.get('msg', '')))


def ints(bs):
    """list of z3 constant bytes -> python ints"""
    return [b if isinstance(b, int) else conc(b) for b in bs]


def bvs(xs, bits=8):
    return [z3.BitVecVal(x, bits) for x in xs]


def tree_val(j):
    """replay-JSON tree -> StructureTag value"""
    cl = EnumV('TagClass', ['Universal', 'Application', 'Context', 'Private'][j['cl']])
    if 'p' in j:
        pl = EnumV('PL', 'P', [VecV(bvs(j['p']))])
    else:
        pl = EnumV('PL', 'C', [VecV([tree_val(x) for x in j['c']])])
    return StructV('StructureTag', [('class', cl), ('id', z3.BitVecVal(j['id'], 64)), ('payload', pl)])


def tree_json(v, model=None):
    """StructureTag value -> replay-JSON tree (leaves evaluated under model)"""
    v = deref(v)
    e = (lambda t: ev(model, t)) if model is not None else (lambda t: conc(t))
    cl = ['Universal', 'Application', 'Context', 'Private'].index(v.fields['class'].variant)
    pl = v.fields['payload']
    if pl.variant == 'P':
        return {'cl': cl, 'id': e(v.fields['id']), 'p': [e(b) for b in pl.fields[0].items]}
    return {'cl': cl, 'id': e(v.fields['id']), 'c': [tree_json(x, model) for x in pl.fields[0].items]}


# ------------------------------------------------------------------------------------------
# parallel exploration

def _worker(args):
    factory, fargs, prefixes, dev, wid = args
    try:
        prog = _PROG
        ctx = build.new_ctx(prog, dev=dev)
        h = factory(ctx, *fargs)
        recs = []
        ctx.todo = [list(p) for p in prefixes]
        ctx.keep_todo = True

        def on_path(out, pc):
            r = h.on_path(ctx, out, pc)
            if r is not None:
                recs.append(r)
        left = _DEADLINE - time.time() if _DEADLINE else h.time_cap
        if left <= 0: raise Unsupported('time cap reached during exploration')
        ctx.explore(h.run, on_path, max_paths=h.max_paths, time_cap=left)
        return {'recs': recs, 'stats': ctx.stats, 'models': sorted(ctx.models_used), 'fns': ctx.fns_used, 'cuts': sorted(set(ctx.cuts))}
    except Unsupported as e:
        return {'unsupported': str(e), 'tb': traceback.format_exc()[-1500:]}
    except Exception as e:
        return {'unsupported': f'{type(e).__name__}: {e}', 'tb': traceback.format_exc()[-2500:]}


_PROG = None
_DEADLINE = None     # absolute end of the running lane's time budget (shared by all its workers)


def explore_parallel(prog, factory, fargs=(), dev=True, nproc=None, split_target=None):
    """factory(ctx, *fargs) -> harness object with .run(), .on_path(ctx,out,pc)->record|None,
    .max_paths, .time_cap.  Returns merged dict(recs, stats, models, fns, cuts)."""
    global _PROG, _DEADLINE
    _PROG = prog
    nproc = nproc or NPROC
    split_target = split_target or nproc * 6
    # phase 1: breadth-first expansion in the master until enough independent prefixes exist
    ctx = build.new_ctx(prog, dev=dev)
    h = factory(ctx, *fargs)
    recs = []
    merged = {'recs': recs, 'stats': dict(ctx.stats), 'models': set(), 'fns': {}, 'cuts': set()}
    frontier = [[]]
    t0 = time.time()
    done_prefix_paths = 0
    while frontier and len(frontier) < split_target and time.time() - t0 < 20:
        # expand the shortest prefix by exploring exactly one path from it
        frontier.sort(key=len)
        p = frontier.pop(0)
        ctx.todo = [p]; ctx.keep_todo = True
        one = []

        def on_one(out, pc):
            r = h.on_path(ctx, out, pc)
            if r is not None:
                one.append(r)
        # run a single path: explore pops p, runs, pushes siblings to ctx.todo; stop after one path
        try:
            _explore_one(ctx, h.run, on_one)
        except Unsupported as e:
            raise Inconclusive('unsupported: ' + str(e))
        recs.extend(one)
        frontier.extend(ctx.todo); ctx.todo = []
        done_prefix_paths += 1
    _DEADLINE = t0 + h.time_cap
    if frontier:
        chunks = [[] for _ in range(min(len(frontier), nproc * 4))]
        for i, p in enumerate(sorted(frontier, key=len)):
            chunks[i % len(chunks)].append(p)
        with mp.get_context('fork').Pool(min(nproc, len(chunks))) as pool:
            results = pool.map(_worker, [(factory, fargs, ch, dev, i) for i, ch in enumerate(chunks)], chunksize=1)
        for r in results:
            if 'unsupported' in r:
                raise Inconclusive('unsupported: ' + r['unsupported'] + '\n' + r.get('tb', ''))
            recs.extend(r['recs'])
            for k, v in r['stats'].items():
                if k == 'maxdepth':
                    merged['stats'][k] = max(merged['stats'].get(k, 0), v)
                else:
                    merged['stats'][k] = merged['stats'].get(k, 0) + v
            merged['models'].update(r['models']); merged['fns'].update(r['fns']); merged['cuts'].update(r['cuts'])
    for k, v in ctx.stats.items():
        if k == 'maxdepth':
            merged['stats'][k] = max(merged['stats'].get(k, 0), v)
        else:
            merged['stats'][k] = merged['stats'].get(k, 0) + v
    merged['models'].update(ctx.models_used); merged['fns'].update(ctx.fns_used); merged['cuts'].update(ctx.cuts)
    merged['models'] = sorted(merged['models']); merged['cuts'] = sorted(merged['cuts'])
    return merged


def _explore_one(ctx, run, on_path):
    """one iteration of Ctx.explore"""
    from mirsym.values import PanicExc, StopAtCall, Infeasible
    ctx.script = ctx.todo.pop(); ctx.di = 0; ctx.pc = []; ctx.path_steps = 0; ctx.nfresh = 0; ctx.depth = 0; ctx.cur_fn = None
    try:
        out = ('ret', run())
    except PanicExc as e:
        out = ('panic', e)
    except StopAtCall as e:
        out = ('stop', e)
    except Infeasible:
        ctx.stats['infeasible'] += 1
        return
    ctx.stats['paths'] += 1
    on_path(out, list(ctx.pc))


# ------------------------------------------------------------------------------------------
# the check object

class Check:
    def __init__(self, pid, tier=None, seed=None):
        self.pid = pid
        self.tier = tier or os.environ.get('VERIF_TIER', 'quick')
        if self.tier not in ('quick', 'thorough'):
            self.tier = 'quick'
        self.seed = int(seed if seed is not None else os.environ.get('VERIF_SEED', '1'))
        self.rng = random.Random(self.seed)
        self.t0 = time.time()
        self.known, self.fixed = load_known()
        self.violations = []       # confirmed, not known
        self.known_hits = {}
        self.unreproduced = []
        self.inconclusive = []
        self.lanes = []
        self.samples = []
        self.assumptions = []
        self.cov = {'states': 0, 'transitions': 0, 'traces_validated_against_impl': 0, 'evaluations': 0,
                    'distinct_nontrivial': 0, 'solver_time_s': 0.0, 'functions_encoded': {}, 'models_used': set(),
                    'cuts': set(), 'bounds': {}, 'kani': [], 'vacuity': {}}
        self.prog = None
        os.makedirs(os.path.join(WORK, 'replays'), exist_ok=True)

    # ---- program
    def program(self, variant=''):
        if self.prog is None or getattr(self, '_variant', '') != variant:
            try:
                self.prog = build.load_program(variant); self._variant = variant
            except RuntimeError as e:
                raise Inconclusive(str(e))
            self.cov['mir_dump'] = {'source_hash': self.prog.src_hash, 'hashes': self.prog.hashes, 'dump_s': round(self.prog.dump_secs, 1)}
        return self.prog

    # ---- bookkeeping
    def add_lane(self, name, merged, bounds, nontrivial, wall):
        st = merged['stats']
        self.cov['states'] += st.get('paths', 0)
        self.cov['transitions'] += st.get('decisions', 0)
        self.cov['evaluations'] += st.get('queries', 0)
        self.cov['distinct_nontrivial'] += nontrivial
        self.cov['solver_time_s'] += st.get('solver_s', 0.0)
        self.cov['functions_encoded'].update(merged['fns'])
        self.cov['models_used'].update(merged['models'])
        self.cov['cuts'].update(merged['cuts'])
        self.cov['bounds'][name] = bounds
        self.lanes.append({'lane': name, 'paths': st.get('paths', 0), 'branch_decisions': st.get('decisions', 0),
                           'solver_queries': st.get('queries', 0), 'solver_s': round(st.get('solver_s', 0.0), 2),
                           'mir_steps': st.get('steps', 0), 'wall_s': round(wall, 1), 'bounds': bounds,
                           'cvc5_crosscheck': {'agree': st.get('xcheck_agree', 0), 'no_answer_in_20s': st.get('xcheck_noanswer', 0)}})
        self.cov['cvc5_crosscheck_agree'] = self.cov.get('cvc5_crosscheck_agree', 0) + st.get('xcheck_agree', 0)

    def key_known(self, key):
        import fnmatch
        for k in self.known:
            if k.get('property') == self.pid and fnmatch.fnmatchcase(key, k.get('key', '')):
                return k
        return None

    def report(self, key, what, case, reproduced, detail=None):
        """a counterexample from the solver, after native replay"""
        path = os.path.join(WORK, 'replays', f'{self.pid}_{abs(hash(key)) % 10**8}_{len(self.violations) + len(self.known_hits)}.json')
        json.dump({'property': self.pid, 'key': key, 'what': what, 'case': case, 'detail': detail}, open(path, 'w'), indent=1, default=str)
        if not reproduced:
            if not any(u[0] == key for u in self.unreproduced):
                self.unreproduced.append((key, what, path))
            return
        k = self.key_known(key)
        if k is not None:
            self.known_hits.setdefault(key, (what, path)); return
        if not any(v[0] == key for v in self.violations):
            self.violations.append((key, what, path))

    def finish(self):
        cov = self.cov
        wall = time.time() - self.t0
        out = {
            'property_id': self.pid, 'tier': self.tier, 'seed': self.seed, 'level': 'model_checking',
            'coverage': {
                'states': cov['states'], 'transitions': max(cov['transitions'], 0),
                'traces_validated_against_impl': cov['traces_validated_against_impl'],
                'evaluations': cov['evaluations'], 'distinct_nontrivial': cov['distinct_nontrivial'],
                'rule': 'states = feasible execution paths of the real MIR terminated by the symbolic executor (+ Kani harnesses); transitions = symbolic branch decisions discharged by z3; evaluations = solver queries (z3 checks + CBMC VCCs); distinct_nontrivial = paths whose path condition constrains >=1 symbolic input and on which every property obligation was discharged by an unsat answer',
                'samples': self.samples[:12] or [{'note': 'no sample recorded'}],
                'exhaustive': not self.inconclusive,
                'lanes': self.lanes, 'bounds': cov['bounds'], 'cuts': sorted(cov['cuts']),
                'functions_encoded': {'count': len(cov['functions_encoded']), 'mir_lines': sum(cov['functions_encoded'].values()),
                                      'names': sorted(cov['functions_encoded'])[:80]},
                'models_used': sorted(cov['models_used']), 'solver_time_s': round(cov['solver_time_s'], 2),
                'kani': cov['kani'], 'vacuity': cov['vacuity'], 'mir_dump': cov.get('mir_dump'),
                'known_findings_hit': sorted(self.known_hits), 'unreproduced': [u[0] for u in self.unreproduced],
                'inconclusive': self.inconclusive,
            },
            'assumptions': self.assumptions,
            'wall_s': round(wall, 1),
            'violations': len(self.violations),
        }
        if out['coverage']['states'] < 1: out['coverage']['states'] = 0
        os.makedirs(EVIDENCE_DIR, exist_ok=True)
        if not (self.inconclusive and cov['states'] == 0):
            # states/transitions must be >= 1 for the schema; an inconclusive run with nothing explored writes no evidence
            out['coverage']['states'] = max(1, out['coverage']['states'])
            out['coverage']['transitions'] = max(1, out['coverage']['transitions'])
            json.dump(out, open(os.path.join(EVIDENCE_DIR, self.pid + '.json'), 'w'), indent=1, default=str)
        by_entry = {}
        for key, (what, path) in sorted(self.known_hits.items()):
            k = self.key_known(key)
            by_entry.setdefault(k.get('key'), []).append((key, what, path))
        for pat, hits in sorted(by_entry.items()):
            key, what, path = hits[0]
            print(f'KNOWN-FINDING: property={self.pid} [{pat}] {what[:400]} (+{len(hits) - 1} more keys: {", ".join(h[0] for h in hits[1:])[:200]}) replay={path}')
        for key, what, path in self.violations:
            print(f'VIOLATION property={self.pid} replay={path}')
            print(f'  what: {what} [key={key}]')
        for key, what, path in self.unreproduced:
            print(f'INCONCLUSIVE property={self.pid}: solver counterexample did not reproduce natively: {what} [{key}] {path}')
        for msg in self.inconclusive:
            print(f'INCONCLUSIVE property={self.pid}: {msg}')
        print(f'[{self.pid}] tier={self.tier} paths={cov["states"]} decisions={cov["transitions"]} queries={cov["evaluations"]} solver={cov["solver_time_s"]:.1f}s wall={wall:.1f}s '
              f'violations={len(self.violations)} known={len(self.known_hits)}')
        if self.violations:
            return 1
        if self.unreproduced or self.inconclusive:
            return 2
        return 0


def run_check(pid, body):
    """body(check) performs the lanes; handles Inconclusive uniformly"""
    tier = None
    args = sys.argv[1:]
    if '--tier' in args:
        tier = args[args.index('--tier') + 1]
    chk = Check(pid, tier=tier)
    if chk.tier == 'thorough' and 'VERIF_XCHECK' not in os.environ:
        os.environ['VERIF_XCHECK'] = '40'        # thorough: every 40th property query is re-decided by cvc5
    try:
        body(chk)
    except Inconclusive as e:
        chk.inconclusive.append(str(e)[:3000])
    except Unsupported as e:
        chk.inconclusive.append('unsupported: ' + str(e)[:3000])
    except subprocess.TimeoutExpired as e:
        chk.inconclusive.append('timeout: ' + str(e)[:300])
    rc = chk.finish()
    sys.exit(rc)
