"""C13: see harness/driver.py (lane B3 on one iteration of the connection driver) and harness/streams.py."""
from .framework import *
from .lane import run_lane
from . import driver
try:
    from . import streams
except ImportError:
    streams = None

PID = 'C13'


def body(chk):
    quick = chk.tier == 'quick'
    nr, ns = (2, 1) if quick else (4, 3)
    need = {'C01': ('resp', 'op-single', 'op-search', 'none'), 'C04': ('resp-eof', 'resp-err', 'op-closed', 'op-unbind', 'op-single', 'misc-closed'), 'C12': ('scrub', 'resp'),
            'C13': ('scrub', 'resp', 'op-single', 'op-search', 'op-abandon', 'op-unbind')}[PID]
    run_lane(chk, driver.DriverStep, (PID, nr, ns), bounds={'pre-state': f'{nr} pending single-result operations + {ns} running search(es) with symbolic, pairwise distinct IDs; in-use set an arbitrary array containing them',
             'events': [e for e in driver.EVENTS if driver.DriverStep(None, PID, nr, ns).want_event(e)], 'select! start index': 'symbolic', 'socket answers': 'ok / error per call', 'response': 'any ID, any operation tag <= 30'},
             selftest=False, need_regions=need)
    if streams is not None:
        streams.extra_lanes(chk, PID)
    if PID == 'C13':
        # adapted searches that issue several protocol-level searches: an early finish() must scrub the page in flight
        from .c16 import Paged
        run_lane(chk, Paged, (2, 1, True), bounds={'pages': '1..2', 'entries per page': '0..1', 'early finish': 'after the first entry of page 2', 'chaining': 'alone or behind EntriesOnly'},
                 selftest=False, need_regions=('early-finish',))
    chk.assumptions += driver.ASSUMPTIONS.get(PID, []) + driver.ASSUMPTIONS['all']


if __name__ == '__main__':
    run_check(PID, body)
