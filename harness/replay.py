"""./check --replay <path>: run a stored counterexample through the native binary (dev and release)."""
import json, sys
from .framework import native
d = json.load(open(sys.argv[1]))
print('property', d.get('property'), 'key', d.get('key')); print('what:', d.get('what'))
for prof in ('dev', 'release'):
    print(prof, json.dumps(native([d['case']], profile=prof)[0])[:2000])
