"""A lane = one entry point + symbolic input shape + oracle.  The generic driver explores every
feasible path, discharges every obligation with z3, replays counterexamples natively and runs
the concrete differential self-test (interpreter vs. native binary)."""
import json
import time
import z3
from .framework import *
from mirsym.values import *
from mirsym.engine import TRUE, FALSE


class Lane:
    name = 'lane'
    max_paths = 400000
    time_cap = int(__import__('os').environ.get('VERIF_LANE_CAP', '1500'))     # seconds per worker; beyond it the check is inconclusive, never 'passed'
    entry = None

    def __init__(self, ctx, *params):
        self.c = ctx
        self.params = params

    # ---- to be provided by subclasses
    def inputs(self):
        raise NotImplementedError

    def execute(self, inp):
        raise NotImplementedError

    def oracle(self, inp, out):
        """-> [(name, z3 Bool that must hold)]; may fork through self.c.branch / choose_int"""
        raise NotImplementedError

    def case(self, cinp):
        raise NotImplementedError

    def native_outcome(self, cinp, j):
        """native JSON -> ('ret', value) | ('panic', PanicExc) in the value model of execute()"""
        raise NotImplementedError

    def summary(self, out, model=None):
        """canonical JSON form of an outcome (for differential comparison and samples)"""
        raise NotImplementedError

    def in_summary(self, inp, model=None):
        return None

    def key(self, obname, out):
        if out[0] == 'panic':
            # role key: the panic message without its payload ("control type: FromUtf8Error {..}" -> "control type")
            m = (out[1].msg or out[1].kind)
            m = m.split(': ')[0].split(' (')[0][:60]
            site = out[1].fn if out[1].fn.endswith('.rs') else ''
            return 'panic:' + (site + ':' if site else '') + m
        return obname

    def concrete_vectors(self, rng):
        return []

    def regions(self, inp, out):
        """names of vacuity regions this path reaches"""
        return []

    # ---- driver side
    def run(self):
        inp = self.inputs()
        try:
            out = ('ret', self.execute(inp))
        except PanicExc as e:
            out = ('panic', e)
        obs = self.oracle(inp, out)
        return (inp, out, obs)

    def default_replay(self, cinp, cse, out, m):
        """run the concrete case natively (dev, then release), evaluate the lane's own oracle on the native outcome
        -> (reproduced, key, what, case, detail)"""
        reproduced = False; key = None; what = None
        try:
            nj = native([cse])[0]
            nout = self.native_outcome(cinp, nj)
            obs2 = self.oracle(cinp, nout)
            for n2, ob2 in obs2:
                v = ob2 if isinstance(ob2, bool) else z3.simplify(ob2)
                if v is False or (v is not True and v.eq(FALSE)):
                    reproduced = True
                    key = self.key(n2, nout)
                    what = f'{self.name}: "{n2}" violated natively; input {json.dumps(self.in_summary(cinp), default=str)[:300]} -> {json.dumps(self.summary(nout), default=str)[:300]}'
                    break
            detail = {'native': nj, 'predicted': self.summary(out, m)}
            if reproduced:
                # also in the release profile, which users run
                try:
                    nr = native([cse], profile='release')[0]
                    detail['native_release'] = nr
                except Exception as e:   # noqa
                    detail['native_release'] = 'not run: ' + str(e)[:100]
        except Exception as e:
            detail = {'replay_error': f'{type(e).__name__}: {e}'}
        return reproduced, key, what, cse, detail

    def on_path(self, ctx, outcome, pc):
        if outcome[0] != 'ret':
            # a panic raised by the oracle itself or a StopAtCall that the lane did not catch
            return {'kind': 'internal', 'msg': f'{outcome[0]}: {outcome[1]}'}
        inp, out, obs = outcome[1]
        rec = {'kind': 'ok', 'nontrivial': bool(pc), 'regions': self.regions(inp, out)}
        bad = None
        for name, ob in obs:
            if ob is True:
                continue
            if ob is False:
                ob = FALSE
            s = z3.simplify(ob)
            if s.eq(TRUE):
                continue
            m = ctx.query(pc, z3.Not(s))
            if m is not None:
                bad = (name, m); break
        if bad is None:
            if ctx.stats['paths'] % 97 == 1 or ctx.stats['paths'] <= 2:
                try:
                    m = ctx.model_of(pc)
                    rec['sample'] = {'lane': self.name, 'input': self.in_summary(inp, m), 'outcome': self.summary(out, m), 'path_condition_size': len(pc)}
                except Exception:
                    pass
            return rec
        name, m = bad
        cinp = conc_val(m, inp)
        cse = self.case(cinp)
        key = self.key(name, out)
        seen = self.__dict__.setdefault('_seen_keys', {})
        seen[key] = seen.get(key, 0) + 1
        if seen[key] > 2:
            # further counterexamples with the same role: counted, not replayed again
            return {'kind': 'dup', 'key': key, 'regions': rec['regions']}
        what = f'{self.name}: obligation "{name}" fails; predicted outcome {json.dumps(self.summary(out, m), default=str)[:300]}'
        reproduced = False; detail = None
        if hasattr(self, 'replay_by_role'):
            # async lanes: the counterexample is reproduced as a scenario against a scripted in-process peer
            try:
                reproduced, key2, what2, cse, detail = self.replay_by_role(cinp, name, out, m)
                if key2: key = key2
                if what2: what = what2
            except Exception as e:
                detail = {'replay_error': f'{type(e).__name__}: {e}'}
            return {'kind': 'viol', 'key': key, 'what': what, 'case': cse, 'reproduced': reproduced, 'detail': detail, 'regions': rec['regions']}
        reproduced, key2, what2, cse, detail = self.default_replay(cinp, cse, out, m)
        if key2: key = key2
        if what2: what = what2
        return {'kind': 'viol', 'key': key, 'what': what, 'case': cse, 'reproduced': reproduced, 'detail': detail, 'regions': rec['regions']}


def run_lane(chk, lane_cls, params=(), bounds=None, dev=True, selftest=True, twin=None, need_regions=(), variant=''):
    """explore one lane completely, account for it in the evidence, report violations"""
    prog = chk.program(variant)
    t0 = time.time()
    probe = os.environ.get('VERIF_PROBE')
    only = os.environ.get('VERIF_ONLY_LANE')
    if only and only not in lane_cls.name:
        # timing experiments only: a run with skipped lanes is never a pass
        chk.inconclusive.append(f'{lane_cls.name}: skipped (VERIF_ONLY_LANE)')
        return {'recs': [], 'stats': {}, 'models': [], 'fns': {}, 'cuts': []}
    try:
        merged = explore_parallel(prog, lane_cls, params, dev=dev)
    except Inconclusive as e:
        # a lane that cannot be decided (unsupported construct, budget) never passes, but it does not stop the other
        # lanes: a replayed violation found by another lane is still reported (exit 1); otherwise the check exits 2
        if probe: print(f'PROBE lane {lane_cls.name}{params if len(str(params)) < 60 else ""} INCONCLUSIVE after {time.time() - t0:.0f}s: {str(e)[:120]}', file=sys.stderr, flush=True)
        chk.inconclusive.append(f'{lane_cls.name}: {str(e)[:200]}')
        return {'recs': [], 'stats': {}, 'models': [], 'fns': {}, 'cuts': []}
    wall = time.time() - t0
    if probe:
        print(f'PROBE lane {lane_cls.name}{params if len(str(params)) < 60 else ""} paths={merged["stats"].get("paths")} wall={wall:.0f}s', file=sys.stderr, flush=True)
    nontrivial = 0
    regions = {}
    for r in merged['recs']:
        for g in r.get('regions', ()):
            regions[g] = regions.get(g, 0) + 1
        if r['kind'] == 'ok':
            if r['nontrivial']: nontrivial += 1
            if 'sample' in r and len(chk.samples) < 12:
                chk.samples.append(r['sample'])
        elif r['kind'] == 'viol':
            chk.report(r['key'], r['what'], r['case'], r['reproduced'], r['detail'])
            chk.cov['traces_validated_against_impl'] += 1
        elif r['kind'] == 'internal':
            chk.inconclusive.append(f'{lane_cls.name}: {r["msg"]}')
    name = lane_cls.name + ('' if not params else '(' + ','.join((str(p) if len(str(p)) < 40 else f'<{len(p)} items>') for p in params) + ')')
    chk.add_lane(name, merged, bounds or {}, nontrivial, wall)
    for g in need_regions:
        chk.cov['vacuity'][f'{name}:{g}'] = regions.get(g, 0)
        if not regions.get(g):
            chk.inconclusive.append(f'vacuity: lane {name} never reached region "{g}"')
    if selftest:
        selftest_lane(chk, lane_cls, params)
    return merged


def selftest_lane(chk, lane_cls, params=()):
    """concrete differential: the executor as a plain MIR interpreter vs. the native build"""
    prog = chk.program()
    ctx = build.new_ctx(prog)
    lane = lane_cls(ctx, *params)
    vecs = lane.concrete_vectors(chk.rng)
    if not vecs:
        return
    cases = [lane.case(v) for v in vecs]
    nat = native(cases)
    bad = 0
    for v, cse, nj in zip(vecs, cases, nat):
        res = []

        def go(v=v):
            try:
                return ('ret', lane.execute(v))
            except PanicExc as e:
                return ('panic', e)
        ctx.todo = None
        ctx.explore(go, lambda out, pc: res.append(out))
        if len(res) != 1 or res[0][0] != 'ret':
            chk.inconclusive.append(f'self-test {lane.name}: concrete run forked or failed on {json.dumps(cse)[:200]}'); bad += 1; continue
        a = lane.summary(res[0][1])
        b = lane.summary(lane.native_outcome(v, nj))
        if json.dumps(a, sort_keys=True, default=str) != json.dumps(b, sort_keys=True, default=str):
            chk.inconclusive.append(f'self-test {lane.name}: interpreter and native disagree on {json.dumps(cse)[:200]}: {json.dumps(a, default=str)[:200]} vs {json.dumps(b, default=str)[:200]}')
            bad += 1
        else:
            chk.cov['traces_validated_against_impl'] += 1
    chk.cov['vacuity'][f'selftest:{lane.name}'] = f'{len(vecs) - bad}/{len(vecs)} concrete vectors agree'
