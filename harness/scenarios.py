"""Role-based native reproduction for the async lanes: a solver counterexample of a one-step / scripted
lane names a *situation* (e.g. "SearchResultDone for a running search"); the scenario below drives the
real client against a scripted in-process peer into that situation and checks the property at the API."""
import json


def okres(tag, rc=0):
    return {'cl': 1, 'id': tag, 'c': [{'cl': 0, 'id': 10, 'p': [rc]}, {'cl': 0, 'id': 4, 'p': []}, {'cl': 0, 'id': 4, 'p': []}]}


ENTRY = {'cl': 1, 'id': 4, 'c': [{'cl': 0, 'id': 4, 'p': [99, 110]}, {'cl': 0, 'id': 16, 'c': []}]}
REF = {'cl': 1, 'id': 19, 'c': [{'cl': 0, 'id': 4, 'p': list(b'ldap://x/')}]}
BIND = {'do': 'simple_bind', 'dn': 'cn=x', 'pw': 'p'}
BIND_OK = {'replies': [{'id': 'req', 'op': okres(1)}]}


def stream_start(adapters):
    return {'do': 'stream_start', 'adapters': adapters, 'base': 'dc=x', 'scope': 2, 'filter': '(a=b)', 'attrs': ['cn']}


def script(steps, server):
    return {'cmd': 'async:script', 'api': 'async', 'steps': steps, 'server': server}


def step(v, name, nth=0):
    xs = [s for s in v['steps'] if s['do'] == name]
    return xs[nth]['r'] if len(xs) > nth else None


def scenario_for(inp, obname, out):
    """-> (role key, what, case, predicate(native value) -> description of the violation or None)"""
    ev = inp.get('event')
    if 'finished search releases' in obname:
        case = script([BIND, stream_start(['EntriesOnly']), {'do': 'next'}, {'do': 'next'}, {'do': 'finish'}, {'do': 'snapshot'}],
                      [BIND_OK, {'replies': [{'id': 'req', 'op': ENTRY}, {'id': 'req', 'op': okres(5)}]}])
        return ('search-done-id-not-released', 'a search read to its end keeps its message ID reserved for ever (driver drops the routing entry on SearchResultDone but not the ID; finish() sends no scrub once the stream is Done)',
                case, lambda v: (f"in-use IDs after the search finished: {step(v, 'snapshot')['inuse']}" if step(v, 'snapshot') and step(v, 'snapshot')['inuse'] else None))
    if 'Abandon releases' in obname and inp.get('abandon') not in (inp.get('result_ids') or []) + (inp.get('search_ids') or []):
        # the abandoned operation is no longer tracked (it completed, was finished early or timed out before)
        case = script([BIND, {'do': 'delete', 'dn': 'dc=x'}, {'do': 'abandon', 'id': 2}, {'do': 'snapshot'}, {'do': 'delete', 'dn': 'dc=y'}],
                      [BIND_OK, {'replies': [{'id': 'req', 'op': okres(11)}]}, {'replies': []}, {'replies': [{'id': 'req', 'op': okres(11, 5)}]}])
        return ('abandon-of-finished-op-leaks-id', 'Abandon of an operation that is no longer outstanding leaves a message ID reserved (the Abandon request\'s own)',
                case, lambda v: (f"in-use IDs after abandon of a finished operation: {step(v, 'snapshot')['inuse']}" if step(v, 'snapshot') and step(v, 'snapshot')['inuse'] else None))
    if 'Abandon releases' in obname:
        case = script([BIND, stream_start([]), {'do': 'next'}, {'do': 'stream_last_id'}, {'do': 'abandon', 'id': 2}, {'do': 'snapshot'}],
                      [BIND_OK, {'replies': [{'id': 'req', 'op': ENTRY}]}, {'replies': []}])
        return ('abandon-does-not-release-abandoned-id', 'Abandon of a running operation drops its routing entry but leaves its message ID reserved (the branch releases the Abandon request\'s own ID instead)',
                case, lambda v: (f"in-use IDs after abandon(2): {step(v, 'snapshot')['inuse']}" if step(v, 'snapshot') and 2 in step(v, 'snapshot')['inuse'] else None))
    if out[0] == 'panic' and ev == 'resp':
        case = script([BIND, stream_start([]), {'do': 'next'}, {'do': 'driver'}, {'do': 'delete', 'dn': 'dc=x'}],
                      [BIND_OK, {'replies': [{'id': 'req', 'op': okres(7)}]}])
        return ('panic:conn.rs:unrecognized op id', 'an operation other than entry/reference/done under the ID of a running search panics the connection driver',
                case, lambda v: (f"driver: {v['driver']}" if v['driver'] == 'panic' else None))
    if 'running search keeps its ID' in obname:
        case = script([BIND, stream_start([]), {'do': 'next'}, {'do': 'stream_last_id'}, {'do': 'snapshot'}],
                      [BIND_OK, {'replies': [{'id': 'req', 'op': ENTRY}]}])
        return ('running-search-id-released', 'the message ID of a search that is still running is no longer in the in-use set (a wrapped-around counter can hand it to a second operation)',
                case, lambda v: (f"search ID {step(v, 'stream_last_id')} running, in-use IDs: {step(v, 'snapshot')['inuse']}" if step(v, 'snapshot') and step(v, 'stream_last_id') not in step(v, 'snapshot')['inuse'] else None))
    if 'result delivery releases' in obname or ('releases exactly that ID' in obname):
        # the caller's future is dropped from outside (no library timeout, hence no scrub); the reply arrives afterwards
        case = script([BIND, {'do': 'spawn_delete', 'dn': 'dc=x'}, {'do': 'abort'}, {'do': 'sleep', 'ms': 300}, {'do': 'snapshot'}],
                      [BIND_OK, {'delay_ms': 200, 'replies': [{'id': 'req', 'op': okres(11)}]}])
        return ('late-result-id-not-released', 'the ID of an operation whose caller is no longer waiting when the reply arrives stays reserved',
                case, lambda v: (f"in-use IDs: {step(v, 'snapshot')['inuse']}" if step(v, 'snapshot') and step(v, 'snapshot')['inuse'] else None))
    if ev == 'scrub' and ('in-use set' in obname or 'routing tables' in obname):
        case = script([BIND, stream_start([]), {'do': 'next'}, {'do': 'finish'}, {'do': 'snapshot'}, {'do': 'delete', 'dn': 'dc=y'}],
                      [BIND_OK, {'replies': [{'id': 'req', 'op': ENTRY}]}, {'replies': [{'id': 'req', 'op': okres(11)}]}])
        return ('scrub-does-not-release-id', 'a scrub (early finish() / timeout) of a search does not make its message ID reusable',
                case, lambda v: (f"in-use IDs after finish(): {step(v, 'snapshot')['inuse']}" if step(v, 'snapshot') and step(v, 'snapshot')['inuse'] else None))
    if 'failed write ends the driver' in obname or (ev and ev.startswith('op-') and 'nothing is delivered as data' in obname):
        case = script([BIND, {'do': 'spawn_delete', 'dn': 'dc=pending'}, {'do': 'delete', 'dn': 'dc=second'}, {'do': 'join'}, {'do': 'driver'}],
                      [BIND_OK, {'replies': [], 'shutdown_read_after': True}])
        return ('write-failure-does-not-fail-pending', 'after a failed write the driver keeps running and an operation already waiting for its reply never completes',
                case, lambda v: (f"pending op: {json.dumps(step(v, 'join'))}, driver: {step(v, 'driver')}" if step(v, 'join') == 'hang' or step(v, 'driver') == 'running' else None))
    if ev == 'resp' and ('keeps serving' in obname or 'matching no outstanding operation' in obname or 'disturbs nothing' in obname):
        # a response nobody waits for (late reply to a timed-out operation / unknown ID / unsolicited notice), then a normal operation
        stray = {'id': 77, 'op': okres(11, 1)} if 'after delivering' not in obname else None
        if stray is not None:
            notice = {'id': 0, 'op': {'cl': 1, 'id': 24, 'c': [{'cl': 0, 'id': 10, 'p': [52]}, {'cl': 0, 'id': 4, 'p': []}, {'cl': 0, 'id': 4, 'p': list(b'bye')}]}}
            # strays of every kind: a late single result, late items of a search that is no longer running, an unsolicited notice
            late_items = [{'id': 78, 'op': ENTRY}, {'id': 78, 'op': REF}, {'id': 78, 'op': okres(5)}]
            case = script([BIND, {'do': 'spawn_delete', 'dn': 'dc=pending'}, {'do': 'join'}, {'do': 'delete', 'dn': 'dc=after'}, {'do': 'driver'}],
                          [BIND_OK, {'replies': [stray] + late_items + [notice, {'id': 'req', 'op': okres(11, 3)}]}, {'replies': [{'id': 'req', 'op': okres(11, 4)}]}])
            def pred(v):
                j, dl = step(v, 'join'), step(v, 'delete')
                if not (isinstance(j, dict) and j.get('ok', {}).get('rc') == 3): return f'a pending operation got {json.dumps(j)[:90]} instead of its own result (rc 3) after a stray response and an unsolicited notice'
                if not (isinstance(dl, dict) and dl.get('ok', {}).get('rc') == 4): return f'a later operation got {json.dumps(dl)[:90]} (driver: {step(v, "driver")})'
                return None
            return ('stray-response-disturbs-connection', 'a response matching no outstanding operation disturbs the connection or another operation', case, pred)
    if ev in ('resp-eof', 'resp-err') and 'driver finishes' in obname:
        idle = not inp.get('result_ids') and not inp.get('search_ids')
        if idle:
            case = script([BIND, {'do': 'sleep', 'ms': 150}, {'do': 'driver'}, {'do': 'is_closed'}, {'do': 'delete', 'dn': 'dc=later'}], [dict(BIND_OK, close_after=True)])
            return ('idle-connection-loss-unnoticed', 'the server closing an idle connection goes unnoticed: the driver keeps running and later operations do not fail immediately',
                    case, lambda v: (f"driver: {step(v, 'driver')}, is_closed: {step(v, 'is_closed')}, later delete: {json.dumps(step(v, 'delete'))[:60]}" if step(v, 'driver') == 'running' or step(v, 'delete') == 'hang' else None))
        case = script([BIND, {'do': 'spawn_delete', 'dn': 'dc=pending'}, {'do': 'join'}, {'do': 'driver'}], [BIND_OK, {'replies': [], 'close_after': True}])
        return ('connection-loss-does-not-fail-pending', 'the server closing the connection does not fail an operation waiting for its reply',
                case, lambda v: (f"pending op: {json.dumps(step(v, 'join'))[:80]}, driver: {step(v, 'driver')}" if step(v, 'join') == 'hang' or step(v, 'driver') == 'running' else None))
    if ev == 'all-closed':
        case = script([BIND, {'do': 'drop_handles'}], [BIND_OK])
        return ('driver-survives-last-handle', 'the driver does not finish (and the transport stays open) after the last handle was dropped',
                case, lambda v: ('driver still running after all handles were dropped' if step(v, 'drop_handles') == 'driver-running' else None))
    return None
