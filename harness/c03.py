"""C03 Results returned to the caller are exactly what the server sent.
A symbolic response model (result code, strings, referrals, SASL/exop fields, controls, message
ID, op tag; per-level BER length forms) is reference-encoded, pushed through the real
decode_inner -> parse_controls -> LdapResultExt::from, and every returned field is compared with
the model.  success()/non_error()/equal() are decided for all u32 result codes."""
import z3
from .framework import *
from .lane import Lane, run_lane
from . import ber
from .c11 import ctrl_json
from mirsym.values import *
from mirsym.engine import TRUE, FALSE, clone_val
from mirsym.models import eq_term, and_all, utf8_valid

FORMS = ['min', 1, 2, 4, 8]
KINDS = [1, 5, 7, 9, 11, 13, 15, 24]


def sym_bytes(name, n):
    return [z3.BitVec(f'{name}{i}', 8) for i in range(n)]


def enc_tlv(first, body, form):
    return [first if z3.is_expr(first) else bv(first, 8)] + ber.len_octets(len(body), form) + list(body)


class ResponseDecode(Lane):
    name = 'C03.response_fields'

    def __init__(self, ctx, maxstr, maxrefs, maxctrls, full=False):
        Lane.__init__(self, ctx, maxstr, maxrefs, maxctrls, full)
        self.maxstr = maxstr; self.maxrefs = maxrefs; self.maxctrls = maxctrls; self.full = full

    def inputs(self):
        c = self.c
        m = {}
        # length forms: envelope, operation, every inner TLV
        if self.full:
            m['f_env'] = FORMS[c.choose(len(FORMS), 'f_env')]
            m['f_op'] = FORMS[c.choose(len(FORMS), 'f_op')]
            m['f_in'] = FORMS[c.choose(len(FORMS), 'f_in')]
        else:
            g = FORMS[c.choose(len(FORMS), 'f_all')]
            m['f_op'] = m['f_in'] = g
            m['f_env'] = g if c.choose(2, 'f_env') == 0 else 'min'
        # message id: 1..4 content octets, non-negative
        k = 1 + c.choose(4, 'idlen')
        idb = sym_bytes('mid', k); c.assume(z3.ULT(idb[0], 0x80)); m['mid'] = idb
        # op tag number: any response kind
        op5 = z3.BitVec('optag', 5); c.assume(z3.Or(*[op5 == t for t in KINDS])); m['optag'] = op5
        # result code 0..2^31-1 in 1..4 octets
        k = 1 + c.choose(4, 'rclen') if self.full else k
        rcb = sym_bytes('rc', k); c.assume(z3.ULT(rcb[0], 0x80)); m['rc'] = rcb
        strlens = [0, self.maxstr] if self.maxstr <= 2 else [0, 1, self.maxstr]
        m['matched'] = sym_bytes('dn', strlens[c.choose(len(strlens), 'dnlen')]); c.assume(utf8_valid(m['matched']))
        m['text'] = sym_bytes('tx', strlens[c.choose(len(strlens), 'txlen')] if self.full else (self.maxstr - len(m['matched']))); c.assume(utf8_valid(m['text']))
        nr = c.choose(self.maxrefs + 1, 'nrefs')
        m['refs'] = []
        for i in range(nr):
            r = sym_bytes(f'ref{i}_', 1 + (i % 2)); c.assume(utf8_valid(r)); m['refs'].append(r)
        ex = c.choose(5, 'extra')
        m['sasl'] = sym_bytes('sasl', 2) if ex == 1 else None
        m['xname'] = None; m['xval'] = None
        if ex in (2, 3):
            m['xname'] = sym_bytes('xn', 2); c.assume(utf8_valid(m['xname']))
        if ex in (3, 4):
            m['xval'] = sym_bytes('xv', 2)
        nc = c.choose(self.maxctrls + 1, 'nctrls')
        m['ctrls'] = []
        for i in range(nc):
            oid = sym_bytes(f'oid{i}_', 1 + i); c.assume(utf8_valid(oid))
            crit = c.choose(2, f'crit{i}')        # 0 absent, 1 present (any octet)
            cb = z3.BitVec(f'critb{i}', 8) if crit else None
            val = sym_bytes(f'cv{i}_', i) if c.choose(2, f'hasval{i}') else None
            m['ctrls'].append({'oid': oid, 'crit': cb, 'val': val})
        m['bytes'] = self.encode(m)
        return m

    @staticmethod
    def encode(m):
        fi = m['f_in']
        res = enc_tlv(0x0A, m['rc'], fi) + enc_tlv(0x04, m['matched'], fi) + enc_tlv(0x04, m['text'], fi)
        if m['refs']:
            res += enc_tlv(0xA3, [b for r in m['refs'] for b in enc_tlv(0x04, r, fi)], fi)
        if m['sasl'] is not None: res += enc_tlv(0x87, m['sasl'], fi)
        if m['xname'] is not None: res += enc_tlv(0x8A, m['xname'], fi)
        if m['xval'] is not None: res += enc_tlv(0x8B, m['xval'], fi)
        op = enc_tlv(z3.simplify(bv(0x60, 8) | z3.ZeroExt(3, m['optag'])), res, m['f_op'])
        body = enc_tlv(0x02, m['mid'], fi) + op
        if m['ctrls']:
            cs = []
            for ct in m['ctrls']:
                one = enc_tlv(0x04, ct['oid'], fi)
                if ct['crit'] is not None: one += enc_tlv(0x01, [ct['crit']], fi)
                if ct['val'] is not None: one += enc_tlv(0x04, ct['val'], fi)
                cs += enc_tlv(0x30, one, fi)
            body += enc_tlv(0xA0, cs, fi)
        return enc_tlv(0x30, body, m['f_env'])

    def execute(self, inp):
        c = self.c
        bm = BytesMutV(list(inp['bytes']))
        r = c.run_fn('decode_inner', [bm])
        if r.variant != 'Ok' or r.fields[0].variant != 'Some':
            return {'decoded': False, 'r': r}
        mid, rest = r.fields[0].fields[0]
        tag, ctrls = rest
        ext = c.run_fn('<LdapResultExt as From<Tag>>::from', [clone_val(tag)])
        return {'decoded': True, 'left': len(bm.items) - bm.lo, 'mid': mid, 'optag': tag.fields[0].fields['id'], 'ext': ext, 'ctrls': ctrls}

    def oracle(self, inp, out):
        m = inp
        if out[0] == 'panic':
            return [('a well-formed response never panics the decoder', FALSE)]
        o = out[1]
        if not o['decoded']:
            return [('a well-formed response is decoded', FALSE)]
        obs = [('whole frame consumed', z3.BoolVal(o['left'] == 0))]
        def be(bs, bits):
            v = z3.BitVecVal(0, bits)
            for b in bs: v = (v << 8) | z3.ZeroExt(bits - 8, b)
            return v
        obs.append(('message ID equals the encoded one', o['mid'] == be(m['mid'], 32)))
        obs.append(('operation tag preserved', o['optag'] == z3.ZeroExt(59, m['optag'])))
        res, exop, sasl = o['ext'].nth(0), o['ext'].nth(1), o['ext'].nth(2)
        obs.append(('result code equals the encoded one', res.fields['rc'] == be(m['rc'], 32)))
        obs.append(('matched DN equals the encoded one', eq_term(res.fields['matched'], StrV(m['matched']))))
        obs.append(('diagnostic text equals the encoded one', eq_term(res.fields['text'], StrV(m['text']))))
        obs.append(('referral list equals the encoded one', eq_term(res.fields['refs'], VecV([StrV(r) for r in m['refs']]))))
        sv = sasl.nth(0)
        obs.append(('SASL credentials', eq_term(sv, Some(VecV(m['sasl'])) if m['sasl'] is not None else NONE())))
        obs.append(('extended response name', eq_term(exop.fields['name'], Some(StrV(m['xname'])) if m['xname'] is not None else NONE())))
        obs.append(('extended response value', eq_term(exop.fields['val'], Some(VecV(m['xval'])) if m['xval'] is not None else NONE())))
        cl = o['ctrls'].items
        obs.append(('number of controls', z3.BoolVal(len(cl) == len(m['ctrls']))))
        for got, want in zip(cl, m['ctrls']):
            raw = got.nth(1)
            obs.append(('control OID', eq_term(raw.fields['ctype'], StrV(want['oid']))))
            obs.append(('control criticality (absent = false, any non-zero octet = true)', raw.fields['crit'] == ((want['crit'] != 0) if want['crit'] is not None else FALSE)))
            obs.append(('control value (absent = none)', eq_term(raw.fields['val'], Some(VecV(want['val'])) if want['val'] is not None else NONE())))
        return obs

    def case(self, cinp):
        return {'cmd': 'decode_result', 'bytes': ints(cinp['bytes'])}

    def native_outcome(self, cinp, j):
        if j['outcome'] == 'panic':
            return native_panic(j)
        v = j['value']
        if v.get('r') != 'some':
            return ('ret', {'decoded': False, 'r': None})
        rj = v['result']
        res = StructV('LdapResult', [('rc', z3.BitVecVal(rj['rc'], 32)), ('matched', StrV(bvs(rj['matched']))), ('text', StrV(bvs(rj['text']))),
                                     ('refs', VecV([StrV(bvs(x)) for x in rj['refs']])), ('ctrls', VecV([]))])
        exop = StructV('Exop', [('name', Some(StrV(bvs(v['exop_name']))) if v['exop_name'] is not None else NONE()),
                                ('val', Some(VecV(bvs(v['exop_val']))) if v['exop_val'] is not None else NONE())])
        sasl = StructV('SaslCreds', [(0, Some(VecV(bvs(v['sasl']))) if v['sasl'] is not None else NONE())])
        ctrls = []
        for cj in v['ctrls']:
            known = NONE() if cj['known'] is None else Some(EnumV('ControlType', cj['known']))
            raw = StructV('RawControl', [('ctype', StrV(bvs(cj['oid']))), ('crit', z3.BoolVal(cj['crit'])), ('val', NONE() if cj['val'] is None else Some(VecV(bvs(cj['val']))))])
            ctrls.append(StructV('Control', [(0, known), (1, raw)]))
        return ('ret', {'decoded': True, 'left': v['left'], 'mid': z3.BitVecVal(v['id'], 32), 'optag': z3.BitVecVal(v['optag'], 64),
                        'ext': StructV('LdapResultExt', [(0, res), (1, exop), (2, sasl)]), 'ctrls': VecV(ctrls)})

    def summary(self, out, model=None):
        if out[0] == 'panic': return {'panic': out[1].msg}
        o = out[1]
        if not o['decoded']: return {'decoded': False}
        e = (lambda t: ev(model, t)) if model is not None else (lambda t: z3.is_true(t) if z3.is_bool(t) else conc(t))
        res, exop, sasl = o['ext'].nth(0), o['ext'].nth(1), o['ext'].nth(2)
        optv = lambda x: None if x.variant == 'None' else [e(b) for b in (x.fields[0].b if isinstance(x.fields[0], StrV) else x.fields[0].items)]
        return {'id': e(o['mid']), 'optag': e(o['optag']), 'rc': e(res.fields['rc']), 'matched': [e(b) for b in res.fields['matched'].b], 'text': [e(b) for b in res.fields['text'].b],
                'refs': [[e(b) for b in r.b] for r in res.fields['refs'].items], 'sasl': optv(sasl.nth(0)), 'xname': optv(exop.fields['name']), 'xval': optv(exop.fields['val']),
                'ctrls': [ctrl_json(x, e) for x in o['ctrls'].items], 'left': o['left']}

    def in_summary(self, inp, model=None):
        e = (lambda t: ev(model, t)) if model is not None else conc
        return {'bytes': [e(b) for b in inp['bytes']], 'forms': [inp['f_env'], inp['f_op'], inp['f_in']]}

    def regions(self, inp, out):
        r = []
        if inp['ctrls']: r.append('controls')
        if inp['refs']: r.append('referrals')
        if inp['f_in'] != 'min': r.append('long-form')
        if inp['xname'] is not None: r.append('exop')
        return r

    def concrete_vectors(self, rng):
        out = []
        for _ in range(10):
            m = {'f_env': rng.choice(FORMS), 'f_op': rng.choice(FORMS), 'f_in': rng.choice(FORMS), 'mid': bvs([rng.randrange(128)]), 'optag': z3.BitVecVal(rng.choice(KINDS), 5),
                 'rc': bvs([rng.randrange(128)] + [rng.randrange(256) for _ in range(rng.randrange(3))]), 'matched': ber.bstr('dc=x' if rng.random() < .5 else ''), 'text': ber.bstr('oké' if rng.random() < .5 else ''),
                 'refs': [ber.bstr('ldap://a')] * rng.randrange(3), 'sasl': bvs([1, 2]) if rng.random() < .3 else None, 'xname': ber.bstr('1.2') if rng.random() < .5 else None,
                 'xval': bvs([9]) if rng.random() < .5 else None,
                 'ctrls': [{'oid': ber.bstr('1.2.840.113556.1.4.319'), 'crit': rng.choice([None, z3.BitVecVal(0, 8), z3.BitVecVal(1, 8), z3.BitVecVal(255, 8)]), 'val': rng.choice([None, bvs([0x30, 0])])} for _ in range(rng.randrange(3))]}
            m['bytes'] = self.encode(m)
            out.append(m)
        return out


class Helpers(Lane):
    """success()/non_error()/equal() over all u32 result codes and all four wrapper types"""
    name = 'C03.result_helpers'
    FNS = ['LdapResult::success', 'LdapResult::non_error', 'SearchResult::success', 'SearchResult::non_error',
           'CompareResult::equal', 'CompareResult::non_error', 'ExopResult::success', 'ExopResult::non_error']

    def inputs(self):
        c = self.c
        return {'fn': self.FNS[c.choose(len(self.FNS), 'fn')], 'rc': z3.BitVec('rc', 32)}

    def mk(self, inp):
        res = StructV('LdapResult', [('rc', inp['rc']), ('matched', StrV([])), ('text', StrV([])), ('refs', VecV([])), ('ctrls', VecV([]))])
        ty = inp['fn'].split('::')[0]
        if ty == 'LdapResult': return res
        if ty == 'SearchResult': return StructV('SearchResult', [(0, VecV([])), (1, res)])
        if ty == 'CompareResult': return StructV('CompareResult', [(0, res)])
        return StructV('ExopResult', [(0, StructV('Exop', [('name', NONE()), ('val', NONE())])), (1, res)])

    def execute(self, inp):
        return self.c.run_fn(inp['fn'], [self.mk(inp)])

    def oracle(self, inp, out):
        if out[0] == 'panic': return [('no panic', FALSE)]
        rc = inp['rc']; r = out[1]; fn = inp['fn']
        isok = z3.BoolVal(r.variant == 'Ok')
        if fn.endswith('::success'): want = rc == 0
        elif fn == 'CompareResult::equal': want = z3.Or(rc == 5, rc == 6)
        elif fn == 'CompareResult::non_error': want = z3.Or(rc == 5, rc == 6, rc == 10)
        else: want = z3.Or(rc == 0, rc == 10)
        obs = [(f'{fn} is Ok exactly for the documented codes', isok == want)]
        if fn == 'CompareResult::equal' and r.variant == 'Ok':
            obs.append(('equal() maps 5 to false and 6 to true', r.fields[0] == (rc == 6)))
        return obs

    def case(self, cinp):
        return {'cmd': 'helper', 'fn': cinp['fn'], 'rc': conc(cinp['rc'])}

    def native_outcome(self, cinp, j):
        if j['outcome'] == 'panic': return native_panic(j)
        v = j['value']
        if v['ok']:
            return ('ret', Ok(z3.BoolVal(v['val']) if v.get('val') is not None else UNIT))
        return ('ret', Err(Opaque('LdapError')))

    def summary(self, out, model=None):
        if out[0] == 'panic': return {'panic': out[1].msg}
        return {'ok': out[1].variant == 'Ok'}

    def in_summary(self, inp, model=None):
        return {'fn': inp['fn'], 'rc': ev(model, inp['rc']) if model is not None else conc(inp['rc'])}

    def regions(self, inp, out):
        return [inp['fn'] + (':ok' if out[0] == 'ret' and out[1].variant == 'Ok' else ':err')]

    def concrete_vectors(self, rng):
        return [{'fn': f, 'rc': z3.BitVecVal(rc, 32)} for f in self.FNS for rc in (0, 5, 6, 10, 49, 4294967295)]


def body(chk):
    quick = chk.tier == 'quick'
    p = (2, 1, 1, False) if quick else tier_param('C03', (3, 2, 2, False))
    run_lane(chk, ResponseDecode, p, bounds={'strings': f'<= {p[0]} bytes (valid UTF-8 by z3 predicate)', 'referrals': p[1], 'controls': p[2], 'length forms': 'short/81/82/84/88 ' + ('independently per level (envelope, operation, inner)' if p[3] else 'one form for all inner levels, envelope same or short'),
                                             'result code': '0..2^31-1 in 1..4 octets', 'message id': '1..4 octets', 'response kinds': KINDS},
             need_regions=('controls', 'referrals', 'long-form', 'exop'))
    if not quick:
        p2 = tier_param('C03F', (1, 0, 0, True))
        run_lane(chk, ResponseDecode, p2, bounds={'strings': f'<= {p2[0]} bytes', 'referrals': p2[1], 'controls': p2[2], 'length forms': 'short/81/82/84/88 chosen independently for the envelope, the operation and the inner TLVs',
                                                  'result code': '0..2^31-1 in 1..4 octets', 'message id': '1..4 octets', 'response kinds': KINDS}, selftest=False, need_regions=('long-form',))
    run_lane(chk, Helpers, (), bounds={'result code': 'all u32', 'helpers': Helpers.FNS},
             need_regions=tuple(f + s for f in Helpers.FNS for s in (':ok', ':err')))
    chk.assumptions += [
        'response model bounded as stated; the three length-form choices are per nesting level, not per TLV',
        'result codes with more than 4 content octets are outside RFC 4511 and outside the claim',
        'the conversion applied is LdapResultExt::from(Tag), the one op_call and the driver use; ctrls are the list decode_inner returns',
        'engine B executes rustc MIR of the current tree; std/nom/bytes callees are modelled and validated by the concrete differential self-test',
    ]


if __name__ == '__main__':
    run_check('C03', body)
