"""C15 SearchEntry::construct keeps every attribute value and classifies it correctly."""
import itertools
import z3
from .framework import *
from .lane import Lane, run_lane
from . import ber
from mirsym.values import *
from mirsym.engine import TRUE, FALSE, clone_val
from mirsym.models import eq_term, and_all, or_all, utf8_valid


def seq_eq(a, b):
    if len(a) != len(b): return FALSE
    return and_all([x == y for x, y in zip(a, b)])


class Construct(Lane):
    name = 'C15.construct'

    def __init__(self, ctx, maxattrs, maxvals, vlens, dnlen):
        Lane.__init__(self, ctx, maxattrs, maxvals, vlens, dnlen)
        self.maxattrs = maxattrs; self.maxvals = maxvals; self.vlens = vlens; self.dnlen = dnlen

    def inputs(self):
        c = self.c
        dn = [z3.BitVec(f'dn{i}', 8) for i in range(c.choose(self.dnlen + 1, 'dnlen'))]
        c.assume(utf8_valid(dn))
        na = c.choose(self.maxattrs + 1, 'nattrs')
        attrs = []
        for a in range(na):
            name = [z3.BitVec(f'n{a}_{i}', 8) for i in range(1 + a % 2)]
            c.assume(utf8_valid(name))
            for prev, _ in attrs:
                if len(prev) == len(name):
                    c.assume(z3.Not(seq_eq(prev, name)))       # attribute descriptions in one entry are distinct
            nv = c.choose(self.maxvals + 1, f'nv{a}')
            vals = []
            for v in range(nv):
                ln = self.vlens[c.choose(len(self.vlens), f'vl{a}_{v}')]
                vals.append([z3.BitVec(f'v{a}_{v}_{i}', 8) for i in range(ln)])
            attrs.append((name, vals))
        return {'dn': dn, 'attrs': attrs}

    @staticmethod
    def tree(inp):
        pal = []
        for name, vals in inp['attrs']:
            pal.append(ber.cons(0, 16, [ber.prim(0, 4, name), ber.cons(0, 17, [ber.prim(0, 4, v) for v in vals])]))
        return ber.cons(1, 4, [ber.prim(0, 4, inp['dn']), ber.cons(0, 16, pal)])

    def execute(self, inp):
        re_ = StructV('ResultEntry', [(0, self.tree(inp)), (1, VecV([]))])
        return self.c.run_fn('SearchEntry::construct', [re_])

    def oracle(self, inp, out):
        if out[0] == 'panic':
            return [('a well-formed entry never panics', FALSE)]
        se = out[1]
        obs = [('DN equals the server\'s', eq_term(se.fields['dn'], StrV(inp['dn'])))]
        text = se.fields['attrs'].items; bins = se.fields['bin_attrs'].items
        obs.append(('no invented attributes', z3.BoolVal(len(text) + len(bins) == len(inp['attrs']))))
        for name, vals in inp['attrs']:
            allvalid = and_all([utf8_valid(v) for v in vals])
            tpos = [i for i, (k, _) in enumerate(text) if len(k.b) == len(name)]
            bpos = [i for i, (k, _) in enumerate(bins) if len(k.b) == len(name)]
            in_text = or_all([seq_eq(text[i][0].b, name) for i in tpos])
            in_bin = or_all([seq_eq(bins[i][0].b, name) for i in bpos])
            obs.append(('each attribute is in exactly one of the two maps', z3.Xor(in_text, in_bin)))
            obs.append(('text map iff every value is valid UTF-8', in_text == allvalid))
            for i in tpos:
                got = text[i][1].items
                same = and_all([eq_term(g, StrV(v)) for g, v in zip(got, vals)]) if len(got) == len(vals) else FALSE
                obs.append(('text values are the server\'s values in order', z3.Implies(seq_eq(text[i][0].b, name), same)))
            for i in bpos:
                got = [x.items for x in bins[i][1].items]
                if len(got) != len(vals):
                    ms = FALSE
                else:
                    perms = []
                    for perm in itertools.permutations(range(len(vals))):
                        perms.append(and_all([seq_eq(got[j], vals[perm[j]]) for j in range(len(vals))]))
                    ms = or_all(perms) if perms else TRUE
                obs.append(('binary map holds exactly the multiset of the values', z3.Implies(seq_eq(bins[i][0].b, name), ms)))
        return obs

    def case(self, cinp):
        return {'cmd': 'construct', 'tree': tree_json(self.tree(cinp))}

    def native_outcome(self, cinp, j):
        if j['outcome'] == 'panic':
            return native_panic(j)
        v = j['value']
        mk = lambda lst, f: MapV([(StrV(bvs(a['name'])), VecV([f(x) for x in a['vals']])) for a in lst])
        return ('ret', StructV('SearchEntry', [('dn', StrV(bvs(v['dn']))), ('attrs', mk(v['attrs'], lambda x: StrV(bvs(x)))),
                                               ('bin_attrs', mk(v['bin_attrs'], lambda x: VecV(bvs(x))))]))

    def summary(self, out, model=None):
        if out[0] == 'panic': return {'panic': out[1].msg}
        e = (lambda t: ev(model, t)) if model is not None else conc
        se = out[1]
        enc = lambda x: [e(b) for b in (x.b if isinstance(x, StrV) else x.items)]
        srt = lambda l: sorted(l, key=lambda d: d['name'])
        return {'dn': enc(se.fields['dn']), 'attrs': srt([{'name': enc(k), 'vals': [enc(x) for x in v.items]} for k, v in se.fields['attrs'].items]),
                'bin_attrs': srt([{'name': enc(k), 'vals': [enc(x) for x in v.items]} for k, v in se.fields['bin_attrs'].items])}

    def in_summary(self, inp, model=None):
        e = (lambda t: ev(model, t)) if model is not None else conc
        return {'dn': [e(b) for b in inp['dn']], 'attrs': [{'name': [e(b) for b in n], 'vals': [[e(b) for b in v] for v in vs]} for n, vs in inp['attrs']]}

    def regions(self, inp, out):
        if out[0] != 'ret': return []
        r = []
        if out[1].fields['attrs'].items: r.append('text')
        if out[1].fields['bin_attrs'].items: r.append('binary')
        if any(len(vs) == 0 for _, vs in inp['attrs']): r.append('no-values')
        return r

    def concrete_vectors(self, rng):
        vecs = []
        pool = [b'a', b'', b'\xff\xfe', b'\xc3\xa9', b'xyz', b'\xe2\x82', b'\xf0\x9f\x98\x80']
        for _ in range(12):
            attrs = []
            for a in range(rng.randrange(3)):
                attrs.append((bvs(b'ab'[:1 + a % 2] if a else b'c'), [bvs(rng.choice(pool)) for _ in range(rng.randrange(4))]))
            vecs.append({'dn': bvs(b'cn=x'), 'attrs': attrs})
        return vecs


def body(chk):
    quick = chk.tier == 'quick'
    p = (2, 2, [0, 2, 3], 2) if quick else tier_param('C15', (2, 2, [0, 1, 2, 3, 4], 3))
    run_lane(chk, Construct, p, bounds={'attributes': f'<= {p[0]} (pairwise distinct names)', 'values per attribute': f'0..{p[1]}', 'value lengths': p[2], 'dn bytes': f'<= {p[3]}',
                                        'value bytes': 'fully symbolic: every valid/invalid UTF-8 pattern in every order'}, need_regions=('text', 'binary', 'no-values'))
    # second shape: ONE attribute with more values, so that every valid/invalid order of 3 (4) values is decided
    # (e.g. invalid, valid, invalid - seed C15_4 needs three values to show)
    p2 = (1, 3, [1, 2], 0) if quick else tier_param('C15b', (1, 4, [1, 2], 1))
    run_lane(chk, Construct, p2, bounds={'attributes': f'<= {p2[0]}', 'values per attribute': f'0..{p2[1]}', 'value lengths': p2[2], 'dn bytes': f'<= {p2[3]}',
                                         'value bytes': 'fully symbolic: every valid/invalid UTF-8 pattern in every order'}, selftest=False, need_regions=('text', 'binary'))
    chk.assumptions += [
        'well-formed SearchResultEntry; attribute descriptions within one entry are pairwise distinct (RFC 4511 4.1.7) and valid UTF-8',
        'HashMap modelled as association list with symbolic key equality; iteration order not relied upon',
        'UTF-8 validity is a z3 predicate over the concrete-length byte list (Unicode table 3-7), used both by the model of from_utf8 and by the oracle',
    ]


if __name__ == '__main__':
    run_check('C15', body)
