#!/bin/bash
# Run once after a fresh restore (offline): builds the native replay binary and warms the Kani crate.
set -e
cd "$(dirname "$0")"
export CARGO_NET_OFFLINE=true
mkdir -p .work evidence
[ -f kani/Cargo.lock ] || cp /repo/Cargo.lock kani/Cargo.lock
(cd replay && cargo build --offline --target-dir ../.work/replay-target >/dev/null 2>&1 && cargo build --offline --release --target-dir ../.work/replay-target >/dev/null 2>&1)
PYTHONPATH="$PWD" python3-vt -c "from mirsym import build; p=build.load_program(); print('mir ok', len(p.fns))"
echo setup done
